(** The clauses of C14 on the ProximityArchive model, for every reachable state and every call. *)
From Coq Require Import List Arith Bool ZArith QArith Qreduction Lia Lqa Sorted Permutation.
From PV Require Import Base.ListUtil Base.QUtil Base.FirstArgmax Model.Store Proofs.StoreProofs
     Model.Archive Proofs.ArchiveProofs Proofs.C01Proofs Proofs.C02Proofs Model.Proximity Proofs.KnnProofs
     Proofs.ProximityProofs.
Import ListNotations.
Set Implicit Arguments.
Local Open Scope nat_scope.
Local Arguments Qred : simpl never.
Local Arguments Qplus : simpl never.
Local Arguments Qmult : simpl never.
Local Arguments Qminus : simpl never.
Local Arguments Qopp : simpl never.
Local Arguments Qltb : simpl never.
Local Arguments Qle_bool : simpl never.
Local Arguments Qdiv : simpl never.

(** * more about first arg-max *)
Section FamMore.
Variable A : Type.
Variable key : A -> Q.

Lemma better_assoc i x y : better key (better key i x) y = better key i (better key x y).
Proof.
  unfold better.
  destruct (Qltb (key i) (key x)) eqn:E1; destruct (Qltb (key x) (key y)) eqn:E2; try rewrite E1; try rewrite E2; auto.
  - assert (E3 : Qltb (key i) (key y) = true).
    { apply Qltb_lt. apply Qltb_lt in E1. apply Qltb_lt in E2. lra. }
    rewrite E3. reflexivity.
  - assert (E3 : Qltb (key i) (key y) = false).
    { apply Qltb_ge. apply Qltb_ge in E1. apply Qltb_ge in E2. lra. }
    rewrite E3. reflexivity.
Qed.

Lemma fam_better t : forall i x w,
  fam key (Some x) t = Some w -> fam key (Some (better key i x)) t = Some (better key i w).
Proof.
  induction t as [|y t IH]; intros i x w H; simpl in *.
  - inversion H; subst. reflexivity.
  - rewrite better_assoc. apply IH. exact H.
Qed.

(** an incumbent against a list: it loses exactly to the list's first arg-max, and only strictly *)
Lemma fam_split i l :
  fam key (Some i) l = match first_argmax key l with None => Some i | Some w => Some (better key i w) end.
Proof.
  destruct l as [|x t]; [reflexivity|].
  unfold first_argmax. simpl. destruct (fam_some key x t) as [w Hw]. rewrite Hw.
  apply fam_better. exact Hw.
Qed.
End FamMore.

Lemma fam_map A B (f : A -> B) (keyA : A -> Q) (keyB : B -> Q) :
  (forall x, keyB (f x) = keyA x) ->
  forall l inc, fam keyB (option_map f inc) (map f l) = option_map f (fam keyA inc l).
Proof.
  intros Hk. induction l as [|x t IH]; intros inc; simpl; auto.
  destruct inc as [i|]; simpl.
  - rewrite <- (IH (Some (better keyA i x))). simpl. f_equal. f_equal.
    unfold better. rewrite !Hk. destruct (Qltb (keyA i) (keyA x)); reflexivity.
  - rewrite <- (IH (Some x)). reflexivity.
Qed.

Lemma nth_map_error A B (f : A -> B) l j x d : nth_error l j = Some x -> nth j (map f l) d = f x.
Proof.
  revert j; induction l as [|a t IH]; intros [|j] H; simpl in *; try discriminate.
  - inversion H; reflexivity.
  - apply IH; auto.
Qed.

(** * coordinate-wise folds *)
Section VFold.
Variable f : Q -> Q -> Q.
Variable R : Q -> Q -> Prop.
Hypothesis R_refl : forall a, R a a.
Hypothesis R_trans : forall a b c, R a b -> R b c -> R a c.
Hypothesis f_l : forall a b, R (f a b) a.
Hypothesis f_r : forall a b, R (f a b) b.
Hypothesis f_sel : forall a b, f a b = a \/ f a b = b.

Lemma map2_length u : forall v, length u = length v -> length (map2 f u v) = length u.
Proof. induction u as [|a u IH]; intros [|b v] H; simpl in *; try lia. rewrite IH; lia. Qed.

Lemma map2_nth u : forall v j, length u = length v -> j < length u ->
  nth j (map2 f u v) 0%Q = f (nth j u 0%Q) (nth j v 0%Q).
Proof.
  induction u as [|a u IH]; intros [|b v] [|j] H Hj; simpl in *; try lia; auto.
  apply IH; lia.
Qed.

Lemma vfold_acc d j t : forall acc,
  length acc = d -> (forall v, In v t -> length v = d) -> j < d ->
  let r := fold_left (map2 f) t acc in
  length r = d /\ R (nth j r 0%Q) (nth j acc 0%Q) /\
  (forall v, In v t -> R (nth j r 0%Q) (nth j v 0%Q)) /\
  (nth j r 0%Q = nth j acc 0%Q \/ exists v, In v t /\ nth j r 0%Q = nth j v 0%Q).
Proof.
  induction t as [|u t IH]; intros acc Hacc Hlen Hj; simpl.
  - repeat split; auto. intros v [].
  - assert (Hu : length u = d) by (apply Hlen; simpl; auto).
    assert (Hm : length (map2 f acc u) = d) by (rewrite map2_length; lia).
    destruct (IH (map2 f acc u) Hm (fun v Hv => Hlen v (or_intror Hv)) Hj) as (H1 & H2 & H3 & H4).
    rewrite map2_nth in H2, H4 by lia.
    split; auto. split; [eapply R_trans; [exact H2|apply f_l]|].
    split.
    + intros v [<-|Hv]; [eapply R_trans; [exact H2|apply f_r]|apply H3; auto].
    + destruct H4 as [H4|(v & Hv & H4)].
      * destruct (f_sel (nth j acc 0%Q) (nth j u 0%Q)) as [E|E]; rewrite E in H4; [left; auto|].
        right. exists u. split; [left; auto|auto].
      * right. exists v. split; [right; auto|auto].
Qed.

Lemma vfold_spec d j vs :
  vs <> [] -> (forall v, In v vs -> length v = d) -> j < d ->
  (forall v, In v vs -> R (nth j (vfold f vs) 0%Q) (nth j v 0%Q)) /\
  (exists v, In v vs /\ nth j (vfold f vs) 0%Q = nth j v 0%Q) /\ length (vfold f vs) = d.
Proof.
  intros Hne Hlen Hj. destruct vs as [|v0 t]; [congruence|]. simpl.
  destruct (@vfold_acc d j t v0 (Hlen v0 (or_introl eq_refl)) (fun v Hv => Hlen v (or_intror Hv)) Hj)
    as (H1 & H2 & H3 & H4).
  split; [|split; auto].
  - intros v [<-|Hv]; auto.
  - destruct H4 as [H4|(v & Hv & H4)]; [exists v0; auto|exists v; auto].
Qed.
End VFold.

Lemma qmin_l a b : (qmin a b <= a)%Q.
Proof. unfold qmin. destruct (Qle_bool a b) eqn:E; [lra|]. destruct (Qlt_le_dec b a); [lra|]. apply Qle_bool_iff in q. congruence. Qed.
Lemma qmin_r a b : (qmin a b <= b)%Q.
Proof. unfold qmin. destruct (Qle_bool a b) eqn:E; [apply Qle_bool_iff; auto|lra]. Qed.
Lemma qmin_sel a b : qmin a b = a \/ qmin a b = b.
Proof. unfold qmin. destruct (Qle_bool a b); auto. Qed.
Lemma qmax_l a b : (a <= qmax a b)%Q.
Proof. unfold qmax. destruct (Qle_bool a b) eqn:E; [apply Qle_bool_iff; auto|lra]. Qed.
Lemma qmax_r a b : (b <= qmax a b)%Q.
Proof. unfold qmax. destruct (Qle_bool a b) eqn:E; [lra|]. destruct (Qlt_le_dec b a); [lra|]. apply Qle_bool_iff in q. congruence. Qed.
Lemma qmax_sel a b : qmax a b = a \/ qmax a b = b.
Proof. unfold qmax. destruct (Qle_bool a b); auto. Qed.

(** np.min(axis=0): a lower bound of every stored row in coordinate j, attained by one of them *)
Theorem vfold_min_spec d j vs :
  vs <> [] -> (forall v, In v vs -> length v = d) -> j < d ->
  (forall v, In v vs -> (nth j (vfold qmin vs) 0 <= nth j v 0)%Q) /\
  (exists v, In v vs /\ nth j (vfold qmin vs) 0%Q = nth j v 0%Q) /\ length (vfold qmin vs) = d.
Proof.
  apply (@vfold_spec qmin Qle); auto using qmin_l, qmin_r, qmin_sel.
  - intros; lra.
  - intros; lra.
Qed.

Theorem vfold_max_spec d j vs :
  vs <> [] -> (forall v, In v vs -> length v = d) -> j < d ->
  (forall v, In v vs -> (nth j v 0 <= nth j (vfold qmax vs) 0)%Q) /\
  (exists v, In v vs /\ nth j (vfold qmax vs) 0%Q = nth j v 0%Q) /\ length (vfold qmax vs) = d.
Proof.
  apply (@vfold_spec qmax (fun a b => (b <= a)%Q)); auto using qmax_l, qmax_r, qmax_sel.
  - intros; lra.
  - intros; lra.
Qed.

(** * the clauses *)
Definition sel_mean (dists : list Q) (sel : list nat) : Q :=
  (sel_sum dists sel / qnat (length sel))%Q.

Lemma is_knn_min k dists sel : is_knn k dists sel <-> is_knn (Nat.min k (length dists)) dists sel.
Proof.
  unfold is_knn. rewrite <- Nat.min_assoc, Nat.min_id. tauto.
Qed.

Section C14.
Variable P : Type.
Variable meas : P -> list Q.
Notation cand := (Archive.cand P).
Notation row := (Archive.row P).
Notation pstate := (pstate P).
Notation pcand := (pcand P).

(** the stored row of an admitted / winning candidate: its own objective and payload *)
Definition row_of (x : pcand) : row := mkRow (pc_obj x) (Qred (pc_obj x)) (pc_pay x).

Lemma novelty_knn c n dists sel :
  n <> 0 -> length dists = n -> is_knn (pk c) dists sel ->
  (novelty c n dists == sel_mean dists sel)%Q.
Proof.
  intros Hn Hlen Hsel. unfold novelty, sel_mean.
  destruct (Nat.eqb_spec n 0); [congruence|].
  rewrite (knn_sum Hsel). destruct Hsel as (_ & Hl & _). rewrite Hl, Hlen. reflexivity.
Qed.

Lemma novelty_empty c dists : novelty c 0 dists = pthr c.
Proof. reflexivity. Qed.

Lemma status2_iff c (st : pstate) x : status_spec c st x = 2%Z <-> is_novel c (psize st) x = true.
Proof.
  unfold status_spec. destruct (is_novel c (psize st) x); [tauto|].
  destruct (plc c && Qltb _ _); split; discriminate.
Qed.

Section OneCall.
Variable c : pcfg.
Variable st : pstate.
Variable b : bool.
Variable cs : list pcand.
Variable st' : pstate.
Variable out : addout.
Hypothesis HP : PInv meas st.
Hypothesis Hadd : padd c st b cs = (st', Ok out).

Let n := psize st.
Let ecs := eff b cs.

Lemma call_facts :
  valid_batch c st ecs = true /\ near_lt c n ecs /\ st' = fst (padd_ok c st ecs) /\
  out = mkOut (map (status_spec c st) ecs) (map (fun x => novelty c n (pc_dists x)) ecs)
              (if plc c then map (lc_of c st) ecs else []) (if plc c then map (value_spec c st) ecs else []).
Proof.
  destruct (padd_inv _ _ _ _ Hadd) as (Hv & Hs & Ho & _). fold ecs in Hv, Hs, Ho.
  pose proof (valid_near _ _ _ Hv) as Hn. repeat split; auto.
  rewrite Ho. apply (@core_out P meas c st ecs HP Hn).
Qed.

(** C14_admit_iff *)
Theorem admit_iff j x : nth_error ecs j = Some x ->
  (n = 0 -> nth j (o_status out) 0%Z = 2%Z) /\
  (n <> 0 -> forall sel, is_knn (pk c) (pc_dists x) sel ->
     (nth j (o_status out) 0%Z = 2%Z <-> (pthr c <= sel_mean (pc_dists x) sel)%Q)).
Proof.
  intros Hj. destruct call_facts as (Hv & _ & _ & ->). cbn [o_status].
  rewrite (@nth_map_error _ _ (status_spec c st) _ _ _ _ Hj).
  assert (Hlen : length (pc_dists x) = n) by (apply (valid_len _ _ _ x Hv), (nth_error_In _ _ Hj)).
  split.
  - intros H0. apply status2_iff. fold n. unfold is_novel. rewrite H0. apply Qle_bool_iff.
    rewrite novelty_empty. lra.
  - intros Hn sel Hsel. rewrite status2_iff. fold n. unfold is_novel.
    rewrite Qle_bool_iff, (novelty_knn c Hn Hlen Hsel). reflexivity.
Qed.

(** C14_reported_novelty *)
Theorem reported_novelty j x : nth_error ecs j = Some x ->
  (n = 0 -> nth j (o_nov out) 0%Q = pthr c) /\
  (n <> 0 -> forall sel, is_knn (pk c) (pc_dists x) sel ->
     (nth j (o_nov out) 0 == sel_mean (pc_dists x) sel)%Q).
Proof.
  intros Hj. destruct call_facts as (Hv & _ & _ & ->). cbn [o_nov].
  rewrite (@nth_map_error _ _ (fun x => novelty c n (pc_dists x)) _ _ _ _ Hj).
  assert (Hlen : length (pc_dists x) = n) by (apply (valid_len _ _ _ x Hv), (nth_error_In _ _ Hj)).
  split.
  - intros ->. reflexivity.
  - intros Hn sel Hsel. apply novelty_knn; auto.
Qed.

(** C14_lc_count *)
Theorem lc_count j x : plc c = true -> 1 <= pk c -> nth_error ecs j = Some x ->
  let r := nth j (o_lc out) (0, 0) in
  let k := Nat.min (pk c) n in
  (n = 0 -> r = (0, 0)) /\
  (n <> 0 -> forall sel, is_knn (pk c) (pc_dists x) sel ->
     fst r <= countb (lower st (pc_obj x)) sel <= snd r) /\
  (n <> 0 -> length (idx_tie k (pc_dists x)) = k - length (idx_below k (pc_dists x)) -> fst r = snd r).
Proof.
  intros Hlc Hk Hj r k. destruct call_facts as (Hv & _ & _ & Hout).
  assert (Hr : r = lc_of c st x).
  { unfold r. rewrite Hout. cbn [o_lc]. rewrite Hlc. apply (@nth_map_error _ _ (lc_of c st) _ _ _ _ Hj). }
  assert (Hlen : length (pc_dists x) = n) by (apply (valid_len _ _ _ x Hv), (nth_error_In _ _ Hj)).
  rewrite Hr. unfold lc_of, kk. fold n. fold k. split; [|split].
  - intros H0. unfold k. rewrite H0, Nat.min_0_r.
    destruct (pc_dists x); [reflexivity|simpl in Hlen; lia].
  - intros Hn sel Hsel. unfold lc_range. cbn [fst snd].
    apply lc_range_sound.
    + rewrite Hlen. unfold k. lia.
    + unfold k. rewrite <- Hlen. apply (proj1 (is_knn_min _ _ _)). exact Hsel.
  - intros Hn Htie. unfold lc_range. cbn [fst snd]. apply lc_range_point; auto.
    unfold countb. apply filter_length_le.
Qed.

(** ... and every count in the interval is produced by some valid selection: the interval is exactly
    the set of answers the k-D tree's tie-breaking can lead to *)
Theorem lc_count_complete j x v : plc c = true -> 1 <= pk c -> nth_error ecs j = Some x -> n <> 0 ->
  let r := nth j (o_lc out) (0, 0) in
  fst r <= v <= snd r ->
  exists sel, is_knn (pk c) (pc_dists x) sel /\ countb (lower st (pc_obj x)) sel = v.
Proof.
  intros Hlc Hk Hj Hn r Hv. destruct call_facts as (Hval & _ & _ & Hout).
  assert (Hr : r = lc_of c st x).
  { unfold r. rewrite Hout. cbn [o_lc]. rewrite Hlc. apply (@nth_map_error _ _ (lc_of c st) _ _ _ _ Hj). }
  assert (Hlen : length (pc_dists x) = n) by (apply (valid_len _ _ _ x Hval), (nth_error_In _ _ Hj)).
  rewrite Hr in Hv. unfold lc_of, kk, lc_range in Hv. fold n in Hv. cbn [fst snd] in Hv.
  set (k := Nat.min (pk c) n) in *.
  assert (Hk' : 1 <= k <= length (pc_dists x)) by (rewrite Hlen; unfold k; lia).
  destruct (@lc_range_complete (lower st (pc_obj x)) k (pc_dists x) Hk'
              (v - countb (lower st (pc_obj x)) (idx_below k (pc_dists x)))) as (sel & Hsel & Hcnt).
  - lia.
  - exists sel. split.
    + apply (proj2 (is_knn_min _ _ _)). rewrite Hlen. exact Hsel.
    + rewrite Hcnt. lia.
Qed.

(** entries after the call *)
Lemma post_entry i : pcontent st' i = post_content c st ecs i.
Proof. destruct call_facts as (_ & Hn & -> & _). apply (@core_content P meas c st ecs HP Hn). Qed.

Lemma post_size : psize st' = n + length (novs c n ecs).
Proof. destruct call_facts as (_ & Hn & -> & _). apply (@core_size P meas c st ecs HP Hn). Qed.

Lemma post_olist : olist (pstore st') = seq 0 (psize st').
Proof. rewrite post_size. destruct call_facts as (_ & Hn & -> & _). apply (@core_olist P meas c st ecs HP Hn). Qed.

Lemma post_pinv : PInv meas st'.
Proof. destruct call_facts as (_ & Hn & -> & _). apply padd_ok_inv; auto. Qed.

Lemma new_entries_map (l : list pcand) : forall m,
  map (fun i => option_map row_of (nth_error l (i - m))) (seq m (length l)) = map (fun x => Some (row_of x)) l.
Proof.
  induction l as [|x t IH]; intros m; simpl; auto.
  rewrite Nat.sub_diag. simpl. f_equal. rewrite <- (IH (S m)).
  apply map_ext_in. intros i Hi. apply in_seq in Hi.
  replace (i - m) with (S (i - S m)) by lia. reflexivity.
Qed.

Lemma post_entries :
  entries st' = map (post_content c st ecs) (seq 0 n) ++ map (fun x => Some (row_of x)) (novs c n ecs).
Proof.
  rewrite (entries_content st' (pi_inv post_pinv) post_olist), post_size, seq_app, map_app. f_equal.
  - apply map_ext. apply post_entry.
  - simpl. rewrite <- (new_entries_map (novs c n ecs) n).
    apply map_ext_in. intros i Hi. apply in_seq in Hi. rewrite post_entry. unfold post_content.
    destruct (@pcontent_ge P st i (pi_inv HP) (pi_olist HP) ltac:(fold n; lia)) as [-> _].
    fold n. destruct (nth_error (novs c n ecs) (i - n)); reflexivity.
Qed.

(** C14_append_only (one call) *)
Theorem append_only : plc c = false ->
  entries st' = entries st ++ map (fun x => Some (row_of x)) (novs c n ecs) /\
  olist (pstore st') = seq 0 (psize st') /\
  psize st' = n + length (novs c n ecs) /\
  firstn n (entries st') = entries st.
Proof.
  intros Hlc.
  assert (He : entries st' = entries st ++ map (fun x => Some (row_of x)) (novs c n ecs)).
  { rewrite post_entries. f_equal.
    rewrite (entries_content st (pi_inv HP) (pi_olist HP)). fold n.
    apply map_ext_in. intros i Hi. apply in_seq in Hi. unfold post_content. rewrite Hlc.
    destruct (@pcontent_lt P st i (pi_inv HP) (pi_olist HP) ltac:(fold n; lia)) as (r & Hr & _).
    rewrite Hr. simpl. rewrite elite_of_stored; auto. apply (pi_thr HP i Hr). }
  split; auto. split; [apply post_olist|]. split; [apply post_size|].
  rewrite He. assert (Hl : length (entries st) = n) by (unfold entries; rewrite map_length; reflexivity).
  rewrite firstn_app, Hl, Nat.sub_diag. simpl. rewrite app_nil_r. rewrite <- Hl. apply firstn_all.
Qed.

(** C14_growth (one call) *)
Theorem growth :
  let n' := n + length (novs c n ecs) in
  psize st' = n' /\ n' <= pcap st' /\
  pcap st' = (if Nat.ltb (pcap st) n' then grow (pcap st) n' else pcap st) /\
  (exists j, pcap st' = pcap st * 2 ^ j /\ (j = 0 \/ pcap st * 2 ^ (j - 1) < n')) /\
  (forall i, i < n -> pcontent st' i <> None) /\
  (plc c = false -> forall i, i < n -> pcontent st' i = pcontent st i).
Proof.
  intros n'. destruct call_facts as (_ & Hn & Hst & _).
  destruct (grown_facts c ecs HP) as (_ & _ & Hfit & _ & _ & _ & Hcap). fold n in Hfit, Hcap. fold n' in Hfit, Hcap.
  destruct (core_store_inv c ecs HP) as [_ Hc']. rewrite <- Hst in Hc'. fold (pcap st') in Hc'.
  split; [apply post_size|]. split; [rewrite Hc'; exact Hfit|]. split; [rewrite Hc'; exact Hcap|].
  split; [|split].
  - rewrite Hc', Hcap. destruct (Nat.ltb_spec (pcap st) n').
    + destruct (grow_spec n' (pi_cap HP)) as (j & Hj & _ & Hm). exists j. auto.
    + exists 0. simpl. split; [lia|auto].
  - intros i Hi. rewrite post_entry. apply (post_content_some_iff c ecs HP). fold n. lia.
  - intros Hlc i Hi. rewrite post_entry. unfold post_content. rewrite Hlc.
    destruct (@pcontent_lt P st i (pi_inv HP) (pi_olist HP) Hi) as (r & Hr & _).
    rewrite Hr. simpl. rewrite elite_of_stored; auto. apply (pi_thr HP i Hr).
Qed.

(** C14_replace_iff (one call): entry [i] afterwards, and the feedback of a non-novel candidate *)
Theorem replace_iff i r : plc c = true -> pcontent st i = Some r ->
  pcontent st' i =
  match first_argmax (@pc_obj P) (targets c n i ecs) with
  | Some w => if Qltb (r_obj r) (pc_obj w) then Some (row_of w) else Some r
  | None => Some r
  end.
Proof.
  intros Hlc Hr. rewrite post_entry. unfold post_content. rewrite Hr, Hlc. fold n.
  rewrite fam_split.
  change (first_argmax (@c_obj P) (map (cand_of i) (targets c n i ecs)))
    with (fam (@c_obj P) (option_map (cand_of i) None) (map (cand_of i) (targets c n i ecs))).
  rewrite (fam_map (cand_of i) (@pc_obj P) (@c_obj P)) by reflexivity.
  fold (first_argmax (@pc_obj P) (targets c n i ecs)).
  assert (Hst : elite_of (stored_cand i r) = r) by (apply elite_of_stored, (pi_thr HP i Hr)).
  destruct (first_argmax (@pc_obj P) (targets c n i ecs)) as [w|]; simpl.
  - unfold better. simpl. destruct (Qltb (r_obj r) (pc_obj w)); simpl; [reflexivity|].
    rewrite Hst. reflexivity.
  - rewrite Hst. reflexivity.
Qed.

Theorem replace_feedback j x : plc c = true -> nth_error ecs j = Some x ->
  is_novel c n x = false ->
  exists r, pcontent st (pc_near x) = Some r /\ pc_near x < n /\
    (forall d, In d (pc_dists x) -> (dist_at (pc_dists x) (pc_near x) <= d)%Q) /\
    (nth j (o_status out) 0%Z = 1%Z <-> (r_obj r < pc_obj x)%Q) /\
    (nth j (o_status out) 0%Z = 0%Z <-> (pc_obj x <= r_obj r)%Q) /\
    nth j (o_val out) 0%Q = (pc_obj x - r_thr r)%Q /\ (r_thr r == r_obj r)%Q.
Proof.
  intros Hlc Hj Hnov. destruct call_facts as (Hv & _ & _ & ->). cbn [o_status o_val]. rewrite Hlc.
  destruct (valid_near_min _ _ _ x Hv Hlc (nth_error_In _ _ Hj) Hnov) as [Hlt Hmin]. fold n in Hlt.
  destruct (@pcontent_lt P st (pc_near x) (pi_inv HP) (pi_olist HP) Hlt) as (r & Hr & _).
  exists r. split; auto. split; auto. split; auto.
  rewrite (@nth_map_error _ _ (status_spec c st) _ _ _ _ Hj), (@nth_map_error _ _ (value_spec c st) _ _ _ _ Hj).
  unfold status_spec, value_spec. fold n. rewrite Hnov, Hlc. simpl.
  unfold thr_at. rewrite Hr.
  assert (Ht : (r_thr r == r_obj r)%Q) by (rewrite (pi_thr HP _ Hr); apply Qred_correct).
  destruct (Qltb (r_thr r) (pc_obj x)) eqn:E.
  - apply Qltb_lt in E. split; [split; [intros _; lra|auto]|].
    split; [split; [discriminate|intros; lra]|]. split; [reflexivity|exact Ht].
  - apply Qltb_ge in E. split; [split; [discriminate|intros; lra]|].
    split; [split; [intros _; lra|auto]|]. split; [reflexivity|exact Ht].
Qed.

End OneCall.

(** * histories *)
Definition is_clear (o : pop P) : bool := match o with PClear => true | _ => false end.
Definition no_clear (h : list (pop P)) : Prop := forall o, In o h -> is_clear o = false.

Lemma read_lo_arch (st : pstate) : ps_arch (fst (read_lo meas st)) = ps_arch st.
Proof. unfold read_lo. destruct (ps_lo st); simpl; auto. destruct (Nat.eqb _ _); reflexivity. Qed.

Lemma read_hi_arch (st : pstate) : ps_arch (fst (read_hi meas st)) = ps_arch st.
Proof. unfold read_hi. destruct (ps_hi st); simpl; auto. destruct (Nat.eqb _ _); reflexivity. Qed.

Lemma entries_arch (s1 s2 : pstate) : ps_arch s1 = ps_arch s2 -> entries s1 = entries s2 /\ psize s1 = psize s2 /\ pcap s1 = pcap s2.
Proof. unfold entries, psize, pcap, pstore. intros ->. auto. Qed.

Lemma entries_length (st : pstate) : length (entries st) = psize st.
Proof. unfold entries. rewrite map_length. reflexivity. Qed.

Lemma padd_append c (st : pstate) b cs : PInv meas st -> plc c = false ->
  exists extra, entries (fst (padd c st b cs)) = entries st ++ extra.
Proof.
  intros HP Hlc. destruct (padd c st b cs) as [st' [out|e]] eqn:E; simpl.
  - destruct (@append_only c st b cs st' out HP E Hlc) as (He & _). eexists. exact He.
  - rewrite (padd_err _ _ _ _ E). exists []. rewrite app_nil_r. reflexivity.
Qed.

Lemma step_append c (st : pstate) o : PInv meas st -> plc c = false -> is_clear o = false ->
  exists extra, entries (pstep meas c st o) = entries st ++ extra.
Proof.
  intros HP Hlc Hc. destruct o; simpl in *; try discriminate.
  - apply padd_append; auto.
  - apply padd_append; auto.
  - exists []. rewrite app_nil_r. apply entries_arch, read_lo_arch.
  - exists []. rewrite app_nil_r. apply entries_arch, read_hi_arch.
Qed.

Lemma steps_prefix c h : forall st : pstate, PInv meas st -> plc c = false -> no_clear h ->
  firstn (psize st) (entries (fold_left (pstep meas c) h st)) = entries st.
Proof.
  induction h as [|o t IH]; intros st HP Hlc Hnc; simpl.
  - rewrite <- entries_length. apply firstn_all.
  - assert (Hc : is_clear o = false) by (apply Hnc; simpl; auto).
    destruct (step_append c o HP Hlc Hc) as (extra & He).
    assert (HP' := pstep_pinv c o HP).
    assert (IH' := IH _ HP' Hlc (fun o' Ho' => Hnc o' (or_intror Ho'))).
    assert (Hle : psize st <= psize (pstep meas c st o)).
    { rewrite <- !entries_length, He, app_length. lia. }
    rewrite <- (Nat.min_l _ _ Hle), <- firstn_firstn, IH', He.
    rewrite firstn_app, entries_length, Nat.sub_diag. simpl. rewrite app_nil_r.
    rewrite <- entries_length. apply firstn_all.
Qed.

(** C14_append_only for histories: whatever follows (without clear), what is stored stays where it is *)
Theorem run_append_only c h1 h2 : 1 <= pcap0 c -> plc c = false -> no_clear h2 ->
  firstn (psize (prun meas c h1)) (entries (prun meas c (h1 ++ h2))) = entries (prun meas c h1).
Proof.
  intros Hc Hlc Hnc. unfold prun. rewrite fold_left_app. apply steps_prefix; auto.
  apply prun_pinv; auto.
Qed.

Theorem run_indices c h : 1 <= pcap0 c ->
  olist (pstore (prun meas c h)) = seq 0 (psize (prun meas c h)).
Proof. intros Hc. apply (pi_olist (prun_pinv meas c h Hc)). Qed.

(** C14_growth for histories *)
Lemma padd_cap c (st : pstate) b cs : PInv meas st -> exists j, pcap (fst (padd c st b cs)) = pcap st * 2 ^ j.
Proof.
  intros HP. destruct (padd c st b cs) as [st' [out|e]] eqn:E; simpl.
  - destruct (@growth c st b cs st' out HP E) as (_ & _ & _ & (j & Hj & _) & _). exists j. exact Hj.
  - rewrite (padd_err _ _ _ _ E). exists 0. simpl. lia.
Qed.

Lemma step_cap c (st : pstate) o : PInv meas st -> exists j, pcap (pstep meas c st o) = pcap st * 2 ^ j.
Proof.
  intros HP. destruct o; simpl.
  - apply padd_cap; auto.
  - apply padd_cap; auto.
  - exists 0. unfold pcap, pstore, pclear. simpl. lia.
  - exists 0. destruct (entries_arch _ _ (read_lo_arch st)) as (_ & _ & ->). simpl. lia.
  - exists 0. destruct (entries_arch _ _ (read_hi_arch st)) as (_ & _ & ->). simpl. lia.
Qed.

Lemma steps_cap c h : forall st : pstate, PInv meas st ->
  exists j, pcap (fold_left (pstep meas c) h st) = pcap st * 2 ^ j.
Proof.
  induction h as [|o t IH]; intros st HP; simpl.
  - exists 0. simpl. lia.
  - destruct (step_cap c o HP) as (j1 & H1).
    destruct (IH _ (pstep_pinv c o HP)) as (j2 & H2).
    exists (j1 + j2). rewrite H2, H1, Nat.pow_add_r. lia.
Qed.

Theorem run_growth c h : 1 <= pcap0 c ->
  psize (prun meas c h) <= pcap (prun meas c h) /\
  exists j, pcap (prun meas c h) = pcap0 c * 2 ^ j.
Proof.
  intros Hc. split.
  - apply len_le_cap, (pi_inv (prun_pinv meas c h Hc)).
  - apply (steps_cap c h (pstart_pinv meas c Hc)).
Qed.

(** C14_bounds *)
Theorem bounds_lo (st : pstate) : PInv meas st ->
  snd (read_lo meas st) = if Nat.eqb (psize st) 0 then Err RuntimeError else Ok (vfold qmin (pmeasures meas st)).
Proof.
  intros HP. unfold read_lo. destruct (ps_lo st) as [v|] eqn:E.
  - destruct (pi_lo HP E) as [Hne ->]. simpl. apply Nat.eqb_neq in Hne. rewrite Hne. reflexivity.
  - destruct (Nat.eqb (psize st) 0); reflexivity.
Qed.

Theorem bounds_hi (st : pstate) : PInv meas st ->
  snd (read_hi meas st) = if Nat.eqb (psize st) 0 then Err RuntimeError else Ok (vfold qmax (pmeasures meas st)).
Proof.
  intros HP. unfold read_hi. destruct (ps_hi st) as [v|] eqn:E.
  - destruct (pi_hi HP E) as [Hne ->]. simpl. apply Nat.eqb_neq in Hne. rewrite Hne. reflexivity.
  - destruct (Nat.eqb (psize st) 0); reflexivity.
Qed.

Theorem run_bounds c h : 1 <= pcap0 c ->
  let st := prun meas c h in
  snd (read_lo meas st) = (if Nat.eqb (psize st) 0 then Err RuntimeError else Ok (vfold qmin (pmeasures meas st))) /\
  snd (read_hi meas st) = (if Nat.eqb (psize st) 0 then Err RuntimeError else Ok (vfold qmax (pmeasures meas st))).
Proof. intros Hc st. split; [apply bounds_lo|apply bounds_hi]; apply prun_pinv; auto. Qed.

Theorem run_bounds_after_clear c h : 1 <= pcap0 c ->
  let st := prun meas c (h ++ [PClear]) in
  psize st = 0 /\ snd (read_lo meas st) = Err RuntimeError /\ snd (read_hi meas st) = Err RuntimeError.
Proof.
  intros Hc st. destruct (run_bounds c (h ++ [PClear]) Hc) as [H1 H2]. fold st in H1, H2.
  assert (Hz : psize st = 0) by (unfold st, prun; rewrite fold_left_app; reflexivity).
  rewrite Hz in H1, H2. auto.
Qed.

(** the unchanged code keeps the caches across clear(): with that [clear] the statement fails (finding F6) *)
Definition stale_clear_read (st : pstate) : result (list Q) :=
  snd (read_lo meas (pclear_stale (fst (read_lo meas st)))).

Theorem bounds_refuted_with_stale_clear (st : pstate) :
  PInv meas st -> psize st <> 0 ->
  stale_clear_read st = Ok (vfold qmin (pmeasures meas st)) /\ psize (pclear_stale (fst (read_lo meas st))) = 0.
Proof.
  intros HP Hne. unfold stale_clear_read. split; [|reflexivity].
  pose proof (bounds_lo HP) as Hb. apply Nat.eqb_neq in Hne. rewrite Hne in Hb.
  unfold read_lo in *. destruct (ps_lo st) as [v|] eqn:E; simpl in *.
  - rewrite E. simpl. exact Hb.
  - rewrite Hne in *. simpl in *. reflexivity.
Qed.

(** objective=None *)
Theorem noobj_zero c (st : pstate) cs : plc c = false ->
  padd c st true cs = padd c st false (map (@zero_obj P) cs).
Proof. intros Hlc. unfold padd. rewrite Hlc. reflexivity. Qed.

Theorem noobj_lc_rejected c (st : pstate) cs : plc c = true -> padd c st true cs = (st, Err ValueError).
Proof. intros Hlc. unfold padd. rewrite Hlc. reflexivity. Qed.

Theorem add_single_is_batch_of_one c (st : pstate) b x : padd_single c st b x = padd c st b [x].
Proof. reflexivity. Qed.

End C14.
