(** Invariants and per-call characterisation of the ProximityArchive model (Model/Proximity.v). *)
From Coq Require Import List Arith Bool ZArith QArith Qreduction Lia Lqa Sorted Permutation.
From PV Require Import Base.ListUtil Base.QUtil Base.FirstArgmax Model.Store Proofs.StoreProofs
     Model.Archive Proofs.ArchiveProofs Proofs.C01Proofs Proofs.C02Proofs Model.Proximity Proofs.KnnProofs.
Import ListNotations.
Set Implicit Arguments.
Local Open Scope nat_scope.
Local Arguments Qred : simpl never.
Local Arguments Qplus : simpl never.
Local Arguments Qmult : simpl never.
Local Arguments Qminus : simpl never.
Local Arguments Qopp : simpl never.
Local Arguments Qltb : simpl never.
Local Arguments Qle_bool : simpl never.

(** * capacity growth *)
Lemma grow_fuel_ge fuel : forall c n, n <= c * 2 ^ fuel -> n <= grow_fuel fuel c n.
Proof.
  induction fuel as [|f IH]; intros c n H; simpl in *.
  - destruct (Nat.leb_spec n c); lia.
  - destruct (Nat.leb_spec n c); [lia|]. apply IH. lia.
Qed.

Lemma grow_ge c n : 1 <= c -> n <= grow c n.
Proof.
  intros Hc. apply grow_fuel_ge.
  pose proof (Nat.pow_gt_lin_r 2 n ltac:(lia)). nia.
Qed.

Lemma grow_fuel_pow fuel : forall c n,
  exists j, grow_fuel fuel c n = c * 2 ^ j /\ (j = 0 \/ c * 2 ^ (j - 1) < n).
Proof.
  induction fuel as [|f IH]; intros c n; simpl.
  - exists 0. simpl. split; [destruct (n <=? c); lia|auto].
  - destruct (Nat.leb_spec n c).
    + exists 0. simpl. split; [lia|auto].
    + destruct (IH (c + (c + 0)) n) as (j & Hj & Hm). exists (S j). split.
      * rewrite Hj. simpl. lia.
      * right. simpl. rewrite Nat.sub_0_r. destruct Hm as [->|Hm]; [simpl; lia|].
        destruct j as [|j']; [simpl; lia|]. simpl in *. rewrite Nat.sub_0_r in Hm. lia.
Qed.

(** the capacity after growth: a power-of-two multiple that fits, and the smallest such *)
Lemma grow_spec c n : 1 <= c ->
  exists j, grow c n = c * 2 ^ j /\ n <= c * 2 ^ j /\ (j = 0 \/ c * 2 ^ (j - 1) < n).
Proof.
  intros Hc. destruct (grow_fuel_pow n c n) as (j & Hj & Hm).
  exists j. repeat split; auto. fold (grow c n) in Hj. rewrite <- Hj. apply grow_ge; auto.
Qed.

(** * a strictly sorted list enumerating an interval is that interval *)
Lemma sorted_range_seq m : forall a l,
  strict_sorted l -> (forall i, In i l <-> a <= i < a + m) -> l = seq a m.
Proof.
  induction m as [|m IH]; intros a l Hs Hin.
  - destruct l as [|x t]; auto. exfalso. specialize (proj1 (Hin x) ltac:(simpl; auto)). lia.
  - destruct l as [|x t].
    + exfalso. apply (proj2 (Hin a)). lia.
    + inversion Hs as [|? ? Hs' Hf]; subst. rewrite Forall_forall in Hf.
      assert (Hx : x = a).
      { assert (Ha : In a (x :: t)) by (apply Hin; lia).
        assert (Hxr := proj1 (Hin x) ltac:(simpl; auto)).
        destruct Ha as [Ha|Ha]; auto. specialize (Hf a Ha). lia. }
      subst x. simpl. f_equal. apply IH; auto.
      intros i. split.
      * intros Hi. specialize (Hf i Hi). assert (Hr := proj1 (Hin i) ltac:(simpl; auto)). lia.
      * intros Hi. assert (Hr : In i (a :: t)) by (apply Hin; lia).
        destruct Hr as [Hr|Hr]; auto. lia.
Qed.

(** * spread *)
Lemma spread_length flags sts : length (spread flags sts) = length flags.
Proof.
  revert sts; induction flags as [|[|] t IH]; intros sts; simpl; auto.
  destruct sts; simpl; rewrite IH; auto.
Qed.

Section PP.
Variable P : Type.
Variable meas : P -> list Q.
Notation cand := (Archive.cand P).
Notation row := (Archive.row P).
Notation archive := (Archive.archive P).
Notation store := (Store.store row).
Notation pstate := (pstate P).
Notation pcand := (pcand P).

(** * olist after ArchiveBase.add: earlier entries first, then the newly occupied cells ascending *)
Lemma archive_add_olist (c : cfg) (a : archive) (cs : list cand) :
  exists new, olist (a_store (fst (Archive.add c a cs))) = olist (a_store a) ++ new /\ strict_sorted new.
Proof.
  unfold Archive.add; simpl. rewrite commit_store.
  set (w := batch_winners c (bump_add (a_store a)) cs).
  destruct (add_raw_cases (bump_add (a_store a)) (map fst w) (map snd w) true) as [[_ ->]|[Hok|(e & -> & _)]].
  - exists []. simpl. rewrite app_nil_r. split; [auto|constructor].
  - rewrite (add_raw_olist Hok). eexists; split; [reflexivity|apply new_indices_sorted].
  - exists []. simpl. rewrite app_nil_r. split; [auto|constructor].
Qed.

(** * to_cands *)
Definition cand_of (i : nat) (x : pcand) : cand := mkCand i (pc_obj x) (pc_pay x).

Definition targets (c : pcfg) (n i : nat) (cs : list pcand) : list pcand :=
  filter (fun x => negb (is_novel c n x) && Nat.eqb (pc_near x) i) cs.

Definition novs (c : pcfg) (n : nat) (cs : list pcand) : list pcand := filter (is_novel c n) cs.

Definition near_lt (c : pcfg) (n : nat) (cs : list pcand) : Prop :=
  plc c = true -> forall x, In x cs -> is_novel c n x = false -> pc_near x < n.

Lemma near_lt_tail c n x t : near_lt c n (x :: t) -> near_lt c n t.
Proof. intros H Hl y Hy. apply H; simpl; auto. Qed.

Lemma to_cands_cells c n cs : forall next, near_lt c n cs ->
  forall y, In y (to_cands c n next cs) -> c_cell y < n \/ next <= c_cell y < next + length (novs c n cs).
Proof.
  induction cs as [|x t IH]; intros next Hn y Hy; simpl in *; [destruct Hy|].
  pose proof (near_lt_tail Hn) as Hn'.
  destruct (is_novel c n x) eqn:En; simpl in *.
  - destruct Hy as [<-|Hy]; simpl; [right; lia|].
    destruct (IH (S next) Hn' y Hy); [left; auto|right; lia].
  - destruct (plc c) eqn:El.
    + destruct Hy as [<-|Hy]; simpl; [left; apply Hn; simpl; auto|]. apply IH; auto.
    + apply IH; auto.
Qed.

Lemma group_nil_cells (i : nat) (l : list cand) : (forall y, In y l -> c_cell y <> i) -> group i l = [].
Proof.
  intros H. unfold group. apply filter_all_false. intros y Hy. apply Nat.eqb_neq. auto.
Qed.

(** candidates aimed at an existing entry [i < n]: the non-novel ones whose nearest entry is [i] *)
Lemma to_cands_group_old c n i cs : forall next, n <= next -> i < n ->
  group i (to_cands c n next cs) = if plc c then map (cand_of i) (targets c n i cs) else [].
Proof.
  unfold targets, group.
  induction cs as [|x t IH]; intros next Hnext Hi; simpl.
  - destruct (plc c); reflexivity.
  - destruct (is_novel c n x) eqn:En; simpl.
    + assert (E : Nat.eqb next i = false) by (apply Nat.eqb_neq; lia).
      rewrite E. apply (IH (S next)); lia.
    + specialize (IH next Hnext Hi). destruct (plc c) eqn:El; simpl.
      * destruct (Nat.eqb_spec (pc_near x) i) as [Heq|Hne]; simpl; rewrite IH; [|reflexivity].
        unfold cand_of. rewrite Heq. reflexivity.
      * rewrite IH. destruct (Nat.eqb (pc_near x) i); reflexivity.
Qed.

(** candidates aimed at a fresh index [i >= next]: the (i - next)-th novel candidate, alone *)
Lemma to_cands_group_new c n i cs : forall next, near_lt c n cs -> n <= next -> next <= i ->
  group i (to_cands c n next cs) =
  match nth_error (novs c n cs) (i - next) with Some x => [cand_of i x] | None => [] end.
Proof.
  induction cs as [|x t IH]; intros next Hn Hnext Hi; simpl.
  - destruct (i - next); reflexivity.
  - pose proof (near_lt_tail Hn) as Hn'. unfold novs in *. simpl.
    destruct (is_novel c n x) eqn:En; simpl.
    + destruct (Nat.eq_dec i next) as [->|Hne].
      * rewrite Nat.sub_diag. simpl. unfold group at 1. simpl. rewrite Nat.eqb_refl.
        f_equal. apply group_nil_cells. intros y Hy.
        destruct (to_cands_cells (S next) Hn' y Hy); lia.
      * unfold group at 1. simpl. assert (E : Nat.eqb next i = false) by (apply Nat.eqb_neq; lia).
        rewrite E. fold (group i (to_cands c n (S next) t)).
        rewrite (IH (S next)) by (auto; lia).
        replace (i - next) with (S (i - S next)) by lia. reflexivity.
    + destruct (plc c) eqn:El.
      * unfold group at 1. simpl.
        assert (Hlt : pc_near x < n) by (apply Hn; simpl; auto).
        assert (E : Nat.eqb (pc_near x) i = false) by (apply Nat.eqb_neq; lia).
        rewrite E. apply (IH next); auto.
      * apply (IH next); auto.
Qed.

Lemma to_cands_wf c n cs cap' :
  near_lt c n cs -> n + length (novs c n cs) <= cap' ->
  wf_cells (acfg cap') (to_cands c n n cs).
Proof.
  intros Hn Hcap y Hy. simpl. destruct (to_cands_cells n Hn y Hy); lia.
Qed.

(** * the state invariant *)
Definition pcontent (st : pstate) (i : nat) : option row := content (ps_arch st) i.

Record PInv (st : pstate) : Prop := {
  pi_inv : Inv (pstore st);
  pi_olist : olist (pstore st) = seq 0 (psize st);
  pi_cap : 1 <= pcap st;
  pi_thr : forall i r, pcontent st i = Some r -> r_thr r = Qred (r_obj r);
  pi_lo : forall v, ps_lo st = Some v -> psize st <> 0 /\ v = vfold qmin (pmeasures meas st);
  pi_hi : forall v, ps_hi st = Some v -> psize st <> 0 /\ v = vfold qmax (pmeasures meas st)
}.

Lemma occ_iff_lt (st : pstate) i :
  Inv (pstore st) -> olist (pstore st) = seq 0 (psize st) ->
  (get_occ (pstore st) i = true <-> i < psize st).
Proof.
  intros HI Hol. rewrite <- (inv_olist_occ HI), Hol, in_seq. lia.
Qed.

Lemma pcontent_lt (st : pstate) i :
  Inv (pstore st) -> olist (pstore st) = seq 0 (psize st) -> i < psize st ->
  exists r, pcontent st i = Some r /\ get_row (pstore st) i = Some r /\ get_occ (pstore st) i = true.
Proof.
  intros HI Hol Hi. apply (@occ_iff_lt st i HI Hol) in Hi.
  unfold pcontent, content. fold (pstore st). rewrite Hi.
  destruct (get_row (pstore st) i) as [r|] eqn:E; [eauto|].
  exfalso. apply (inv_written HI i Hi E).
Qed.

Lemma pcontent_ge (st : pstate) i :
  Inv (pstore st) -> olist (pstore st) = seq 0 (psize st) -> psize st <= i ->
  pcontent st i = None /\ get_occ (pstore st) i = false.
Proof.
  intros HI Hol Hi. unfold pcontent, content. fold (pstore st).
  destruct (get_occ (pstore st) i) eqn:E; auto.
  apply (@occ_iff_lt st i HI Hol) in E. lia.
Qed.

Lemma pcontent_some_iff (st : pstate) i :
  Inv (pstore st) -> olist (pstore st) = seq 0 (psize st) -> (pcontent st i <> None <-> i < psize st).
Proof.
  intros HI Hol. destruct (Nat.lt_ge_cases i (psize st)) as [Hi|Hi].
  - destruct (@pcontent_lt st i HI Hol Hi) as (r & -> & _). split; [auto|discriminate].
  - destruct (@pcontent_ge st i HI Hol Hi) as [-> _]. split; [congruence|lia].
Qed.

Lemma entries_content (st : pstate) :
  Inv (pstore st) -> olist (pstore st) = seq 0 (psize st) ->
  entries st = map (pcontent st) (seq 0 (psize st)).
Proof.
  intros HI Hol. unfold entries. rewrite Hol. apply map_ext_in. intros i Hi. apply in_seq in Hi.
  destruct (@pcontent_lt st i HI Hol ltac:(lia)) as (r & -> & -> & _). reflexivity.
Qed.

(** * the grown store *)
Section Grown.
Variable c : pcfg.
Variable st : pstate.
Variable cs : list pcand.
Hypothesis HP : PInv st.

Let n := psize st.
Let n' := n + length (novs c n cs).
Let s1 := grown_store c st cs.
Let a1 := with_store (ps_arch st) s1.
Let c1 := acfg (cap s1).

Lemma grown_facts :
  Inv s1 /\ olist s1 = olist (pstore st) /\ n' <= cap s1 /\ 1 <= cap s1 /\
  (forall i, get_occ s1 i = get_occ (pstore st) i) /\ (forall i, get_row s1 i = get_row (pstore st) i) /\
  cap s1 = (if Nat.ltb (pcap st) n' then grow (pcap st) n' else pcap st).
Proof.
  unfold s1, grown_store, novel_rows. fold n. fold (novs c n cs). fold n'. fold (pcap st).
  pose proof (pi_cap HP) as Hc. pose proof (pi_inv HP) as HI.
  destruct (Nat.ltb_spec (pcap st) n') as [Hlt|Hge].
  - pose proof (grow_ge n' Hc) as Hg.
    assert (Hlt' : cap (pstore st) < grow (pcap st) n') by (fold (pcap st); lia).
    destruct (resize_preserves _ Hlt') as (Hcap & Hol & _ & _ & Hocc & Hrow).
    split; [apply resize_inv; auto|].
    split; [auto|]. split; [rewrite Hcap; auto|]. split; [rewrite Hcap; lia|].
    split; [auto|]. split; auto.
  - split; [auto|]. split; [auto|]. split; [auto|]. split; [auto|]. split; auto.
Qed.

Lemma a1_ainv : AInv c1 a1.
Proof. destruct grown_facts as (HI & _). constructor; simpl; auto. Qed.

Lemma a1_content i : content a1 i = pcontent st i.
Proof.
  destruct grown_facts as (_ & _ & _ & _ & Hocc & Hrow & _).
  unfold content, pcontent, content; simpl. fold (pstore st). rewrite Hocc, Hrow. reflexivity.
Qed.

Lemma c1_elitist : elitist c1.
Proof. split; reflexivity. Qed.

Hypothesis Hnear : near_lt c n cs.

Definition stored_cand (i : nat) (r : row) : cand := mkCand i (r_obj r) (r_pay r).

Lemma elite_of_stored i r : r_thr r = Qred (r_obj r) -> elite_of (stored_cand i r) = r.
Proof. destruct r as [o t p]; simpl. intros ->. reflexivity. Qed.

(** entry [i] after the call *)
Definition post_content (i : nat) : option row :=
  match pcontent st i with
  | Some r => option_map (@elite_of P)
                (fam (@c_obj P) (Some (stored_cand i r))
                     (if plc c then map (cand_of i) (targets c n i cs) else []))
  | None => option_map (fun x => elite_of (cand_of i x)) (nth_error (novs c n cs) (i - n))
  end.

Lemma padd_ok_arch : ps_arch (fst (padd_ok c st cs)) = fst (Archive.add c1 a1 (to_cands c n n cs)).
Proof. reflexivity. Qed.

Lemma core_content i : pcontent (fst (padd_ok c st cs)) i = post_content i.
Proof.
  unfold pcontent at 1. rewrite padd_ok_arch.
  destruct grown_facts as (HI1 & Hol1 & Hcap1 & _).
  assert (Hwf : wf_cells c1 (to_cands c n n cs)) by (apply to_cands_wf; auto).
  rewrite (add_content i a1_ainv Hwf).
  unfold post_content.
  destruct (Nat.lt_ge_cases i n) as [Hi|Hi].
  - destruct (@pcontent_lt st i (pi_inv HP) (pi_olist HP) Hi) as (r & Hr & _).
    rewrite Hr.
    assert (Hc : content a1 i = option_map (@elite_of P) (Some (stored_cand i r))).
    { rewrite a1_content, Hr. simpl. rewrite elite_of_stored; auto. apply (pi_thr HP i Hr). }
    rewrite (@elitist_cell_winner P c1 a1 (to_cands c n n cs) i _ c1_elitist a1_ainv Hc).
    rewrite (@to_cands_group_old c n i cs n (Nat.le_refl n) Hi). reflexivity.
  - destruct (@pcontent_ge st i (pi_inv HP) (pi_olist HP) Hi) as (Hr & _).
    rewrite Hr.
    assert (Hc : content a1 i = option_map (@elite_of P) None) by (rewrite a1_content, Hr; reflexivity).
    rewrite (@elitist_cell_winner P c1 a1 (to_cands c n n cs) i _ c1_elitist a1_ainv Hc).
    rewrite (@to_cands_group_new c n i cs n Hnear (Nat.le_refl n) Hi).
    destruct (nth_error (novs c n cs) (i - n)); reflexivity.
Qed.

Lemma post_content_some_iff i : post_content i <> None <-> i < n'.
Proof.
  unfold post_content. destruct (Nat.lt_ge_cases i n) as [Hi|Hi].
  - destruct (@pcontent_lt st i (pi_inv HP) (pi_olist HP) Hi) as (r & -> & _).
    destruct (fam_some (@c_obj P) (stored_cand i r) (if plc c then map (cand_of i) (targets c n i cs) else [])) as [w ->].
    simpl. split; [unfold n'; lia|discriminate].
  - destruct (@pcontent_ge st i (pi_inv HP) (pi_olist HP) Hi) as (-> & _).
    destruct (nth_error (novs c n cs) (i - n)) eqn:E; simpl.
    + assert (i - n < length (novs c n cs)) by (apply nth_error_Some; congruence).
      split; [unfold n'; lia|discriminate].
    + apply nth_error_None in E. split; [congruence|unfold n'; lia].
Qed.

Lemma post_content_thr i r : post_content i = Some r -> r_thr r = Qred (r_obj r).
Proof.
  unfold post_content. destruct (pcontent st i) as [r0|].
  - destruct (fam _ _ _) as [w|]; simpl; [|discriminate]. intros H; inversion H; subst. reflexivity.
  - destruct (nth_error _ _) as [x|]; simpl; [|discriminate]. intros H; inversion H; subst. reflexivity.
Qed.

Let st' := fst (padd_ok c st cs).

Lemma core_store_inv : Inv (pstore st') /\ cap (pstore st') = cap s1.
Proof.
  unfold st', pstore. rewrite padd_ok_arch.
  destruct (add_inv (to_cands c n n cs) a1_ainv) as [HI Hc]. split; auto.
Qed.

Lemma NoDup_app_disj A (l1 l2 : list A) x : NoDup (l1 ++ l2) -> In x l1 -> In x l2 -> False.
Proof.
  induction l1 as [|a t IH]; simpl; intros Hnd H1 H2; [auto|].
  inversion Hnd; subst. destruct H1 as [->|H1]; [apply H3, in_or_app; auto|auto].
Qed.

Lemma core_olist : olist (pstore st') = seq 0 n'.
Proof.
  destruct core_store_inv as [HI' _].
  destruct (archive_add_olist c1 a1 (to_cands c n n cs)) as (new & Hol & Hs).
  assert (Hol' : olist (pstore st') = seq 0 n ++ new).
  { unfold st', pstore. rewrite padd_ok_arch, Hol. simpl.
    destruct grown_facts as (_ & -> & _). fold (pstore st). rewrite (pi_olist HP). reflexivity. }
  assert (Hocc : forall i, In i (olist (pstore st')) <-> i < n').
  { intros i. rewrite (inv_olist_occ HI'). rewrite <- post_content_some_iff, <- core_content.
    fold st'. unfold pcontent, content. fold (pstore st').
    destruct (get_occ (pstore st') i) eqn:E; [|split; congruence].
    split; auto. intros _. apply (inv_written HI' i E). }
  assert (Hnew : new = seq n (length (novs c n cs))).
  { apply sorted_range_seq; auto. intros i. split.
    - intros Hi. assert (Hin : In i (olist (pstore st'))) by (rewrite Hol'; apply in_or_app; auto).
      apply Hocc in Hin. split; [|exact Hin].
      destruct (Nat.lt_ge_cases i n) as [Hlt|]; auto. exfalso.
      apply (@NoDup_app_disj _ (seq 0 n) new i); [rewrite <- Hol'; apply HI'|apply in_seq; lia|auto].
    - intros [H1 H2]. assert (Hin : In i (olist (pstore st'))) by (apply Hocc; exact H2).
      rewrite Hol' in Hin. apply in_app_or in Hin. destruct Hin as [Hin|Hin]; auto.
      apply in_seq in Hin. lia. }
  rewrite Hol', Hnew. unfold n'. rewrite seq_app. reflexivity.
Qed.

Lemma core_size : psize st' = n'.
Proof. unfold psize, len. rewrite core_olist, seq_length. reflexivity. Qed.

End Grown.

(** * feedback of one call *)
Definition thr_at (st : pstate) (i : nat) : Q :=
  match pcontent st i with Some r => r_thr r | None => 0%Q end.

Definition status_spec (c : pcfg) (st : pstate) (x : pcand) : Z :=
  if is_novel c (psize st) x then 2%Z
  else if plc c && Qltb (thr_at st (pc_near x)) (pc_obj x) then 1%Z else 0%Z.

Definition value_spec (c : pcfg) (st : pstate) (x : pcand) : Q :=
  if is_novel c (psize st) x then (pc_obj x - 0)%Q else (pc_obj x - thr_at st (pc_near x))%Q.

Section Feedback.
Variable c : pcfg.
Variable st : pstate.
Variable cs : list pcand.
Hypothesis HP : PInv st.

Let n := psize st.
Let s1 := grown_store c st cs.
Let a1 := with_store (ps_arch st) s1.
Let c1 := acfg (cap s1).

Lemma judge_novel i x : n <= i ->
  judge_status c1 a1 (cand_of i x) = 2%Z /\ judge_value c1 a1 (cand_of i x) = (pc_obj x - 0)%Q.
Proof.
  intros Hi. destruct (@pcontent_ge st i (pi_inv HP) (pi_olist HP) Hi) as (Hr & _).
  unfold judge_status, judge_value, accepts, eff_thr. simpl c_cell.
  unfold a1, s1. rewrite (a1_content c cs HP i), Hr. simpl. split; reflexivity.
Qed.

Lemma judge_old i x : i < n ->
  judge_status c1 a1 (cand_of i x) = (if Qltb (thr_at st i) (pc_obj x) then 1%Z else 0%Z) /\
  judge_value c1 a1 (cand_of i x) = (pc_obj x - thr_at st i)%Q.
Proof.
  intros Hi. destruct (@pcontent_lt st i (pi_inv HP) (pi_olist HP) Hi) as (r & Hr & _).
  unfold judge_status, judge_value, accepts, eff_thr, thr_at. simpl c_cell.
  unfold a1, s1. rewrite (a1_content c cs HP i), Hr. simpl. split; reflexivity.
Qed.

Lemma status_spec_eq x :
  status_spec c st x = (if is_novel c n x then 2%Z
                        else if plc c && Qltb (thr_at st (pc_near x)) (pc_obj x) then 1%Z else 0%Z).
Proof. reflexivity. Qed.

Lemma value_spec_eq x :
  value_spec c st x = (if is_novel c n x then (pc_obj x - 0)%Q else (pc_obj x - thr_at st (pc_near x))%Q).
Proof. reflexivity. Qed.

Lemma feedback_lc l : plc c = true -> near_lt c n l -> forall next, n <= next ->
  map (judge_status c1 a1) (to_cands c n next l) = map (status_spec c st) l /\
  map (judge_value c1 a1) (to_cands c n next l) = map (value_spec c st) l.
Proof.
  intros Hlc. induction l as [|x t IH]; intros Hn next Hnext; [simpl; auto|].
  pose proof (near_lt_tail Hn) as Hn'.
  cbn [map to_cands]. rewrite status_spec_eq, value_spec_eq, Hlc.
  destruct (is_novel c n x) eqn:En; cbn [map andb].
  - change (mkCand next (pc_obj x) (pc_pay x)) with (cand_of next x).
    destruct (@judge_novel next x Hnext) as [-> ->].
    destruct (IH Hn' (S next) ltac:(lia)) as [-> ->]. auto.
  - assert (Hlt : pc_near x < n) by (apply Hn; simpl; auto).
    change (mkCand (pc_near x) (pc_obj x) (pc_pay x)) with (cand_of (pc_near x) x).
    destruct (@judge_old (pc_near x) x Hlt) as [-> ->].
    destruct (IH Hn' next Hnext) as [-> ->]. auto.
Qed.

Lemma feedback_nolc l : plc c = false -> forall next, n <= next ->
  spread (map (is_novel c n) l) (map (judge_status c1 a1) (to_cands c n next l)) = map (status_spec c st) l.
Proof.
  intros Hlc. induction l as [|x t IH]; intros next Hnext; [simpl; auto|].
  cbn [map to_cands]. rewrite status_spec_eq, Hlc.
  destruct (is_novel c n x) eqn:En; cbn [map andb spread].
  - change (mkCand next (pc_obj x) (pc_pay x)) with (cand_of next x).
    destruct (@judge_novel next x Hnext) as [-> _]. f_equal. apply (IH (S next)). lia.
  - f_equal. apply (IH next). auto.
Qed.

Hypothesis Hnear : near_lt c n cs.

Lemma core_out :
  snd (padd_ok c st cs) =
  mkOut (map (status_spec c st) cs) (map (fun x => novelty c n (pc_dists x)) cs)
        (if plc c then map (lc_of c st) cs else []) (if plc c then map (value_spec c st) cs else []).
Proof.
  unfold padd_ok. cbv zeta. cbn [snd].
  pose proof (add_feedback_pointwise (to_cands c n n cs) (a1_ainv c cs HP)) as Hfb.
  unfold n in *. rewrite Hfb. cbn [fst snd].
  destruct (plc c) eqn:El.
  - destruct (feedback_lc El Hnear (Nat.le_refl _)) as [H1 H2]. unfold c1, a1, s1, n in H1, H2.
    rewrite H1, H2. reflexivity.
  - pose proof (feedback_nolc cs El (Nat.le_refl _)) as H1. unfold c1, a1, s1, n in H1.
    rewrite H1. reflexivity.
Qed.

Lemma core_status : o_status (snd (padd_ok c st cs)) = map (status_spec c st) cs.
Proof. rewrite core_out. reflexivity. Qed.

Lemma core_lo :
  ps_lo (fst (padd_ok c st cs)) = (if existsb nonzero (map (status_spec c st) cs) then None else ps_lo st) /\
  ps_hi (fst (padd_ok c st cs)) = (if existsb nonzero (map (status_spec c st) cs) then None else ps_hi st).
Proof.
  pose proof core_status as H. unfold padd_ok in *. cbv zeta in *. cbn [fst snd o_status ps_lo ps_hi] in *.
  rewrite H. split; reflexivity.
Qed.

(** a call that reports status 0 for every candidate leaves every entry as it was *)
Lemma all_zero_unchanged :
  existsb nonzero (map (status_spec c st) cs) = false ->
  novs c n cs = [] /\ forall i, post_content c st cs i = pcontent st i.
Proof.
  intros Hz.
  assert (Hall : forall x, In x cs -> status_spec c st x = 0%Z).
  { intros x Hx. destruct (Z.eqb_spec (status_spec c st x) 0) as [|Hne]; auto. exfalso.
    assert (Hex : existsb nonzero (map (status_spec c st) cs) = true).
    { apply existsb_exists. exists (status_spec c st x). split; [apply in_map; auto|].
      unfold nonzero. apply negb_true_iff, Z.eqb_neq; auto. }
    congruence. }
  assert (Hnov : forall x, In x cs -> is_novel c n x = false).
  { intros x Hx. specialize (Hall x Hx). unfold status_spec in Hall. fold n in Hall.
    destruct (is_novel c n x); [discriminate|reflexivity]. }
  assert (Hnovs : novs c n cs = []) by (apply filter_all_false; auto).
  split; auto. intros i. unfold post_content. fold n. rewrite Hnovs.
  destruct (pcontent st i) as [r|] eqn:Hr.
  - rewrite fam_keeps.
    + simpl. rewrite elite_of_stored; auto. apply (pi_thr HP i Hr).
    + intros y Hy. destruct (plc c) eqn:El; [|destruct Hy].
      apply in_map_iff in Hy. destruct Hy as (x & <- & Hx).
      unfold targets in Hx. apply filter_In in Hx. destruct Hx as [Hx Hb].
      apply andb_true_iff in Hb. destruct Hb as [_ Hb]. apply Nat.eqb_eq in Hb.
      specialize (Hall x Hx). unfold status_spec in Hall. fold n in Hall.
      rewrite (Hnov x Hx), El, Hb in Hall. simpl in Hall.
      unfold thr_at in Hall. rewrite Hr in Hall.
      destruct (Qltb (r_thr r) (pc_obj x)) eqn:E; [discriminate|].
      apply Qltb_ge in E. simpl. rewrite (pi_thr HP i Hr), Qred_correct in E. exact E.
  - destruct (i - n); reflexivity.
Qed.

Lemma padd_ok_inv : PInv (fst (padd_ok c st cs)).
Proof.
  pose proof (@core_size c st cs HP Hnear) as Hsz. fold n in Hsz.
  pose proof (@core_olist c st cs HP Hnear) as Hol. fold n in Hol.
  destruct (core_store_inv c cs HP) as [HI' Hcap'].
  destruct (grown_facts c cs HP) as (_ & _ & _ & Hc1 & _).
  constructor; auto.
  - rewrite Hol, Hsz. reflexivity.
  - unfold pcap. rewrite Hcap'. exact Hc1.
  - intros i r. rewrite (@core_content c st cs HP Hnear). apply post_content_thr.
  - intros v Hv. destruct core_lo as [Hlo _]. rewrite Hlo in Hv.
    destruct (existsb nonzero (map (status_spec c st) cs)) eqn:Ez; [discriminate|].
    destruct (all_zero_unchanged Ez) as [Hnovs Hsame].
    assert (Hsz' : psize (fst (padd_ok c st cs)) = psize st) by (rewrite Hsz, Hnovs; simpl; fold n; lia).
    destruct (pi_lo HP Hv) as [Hne ->]. split; [rewrite Hsz'; auto|].
    unfold pmeasures. rewrite (entries_content _ HI'), (entries_content _ (pi_inv HP) (pi_olist HP)).
    + rewrite Hsz'. f_equal. f_equal. apply map_ext. intros i.
      try rewrite (@core_content c st cs HP Hnear). rewrite Hsame. reflexivity.
    + rewrite Hol, Hsz. reflexivity.
  - intros v Hv. destruct core_lo as [_ Hhi]. rewrite Hhi in Hv.
    destruct (existsb nonzero (map (status_spec c st) cs)) eqn:Ez; [discriminate|].
    destruct (all_zero_unchanged Ez) as [Hnovs Hsame].
    assert (Hsz' : psize (fst (padd_ok c st cs)) = psize st) by (rewrite Hsz, Hnovs; simpl; fold n; lia).
    destruct (pi_hi HP Hv) as [Hne ->]. split; [rewrite Hsz'; auto|].
    unfold pmeasures. rewrite (entries_content _ HI'), (entries_content _ (pi_inv HP) (pi_olist HP)).
    + rewrite Hsz'. f_equal. f_equal. apply map_ext. intros i.
      try rewrite (@core_content c st cs HP Hnear). rewrite Hsame. reflexivity.
    + rewrite Hol, Hsz. reflexivity.
Qed.

End Feedback.

(** * every operation preserves the invariant *)
Definition eff (b : bool) (cs : list pcand) : list pcand := if b then map (@zero_obj P) cs else cs.

Lemma padd_inv c (st : pstate) b (cs0 : list pcand) st' out :
  padd c st b cs0 = (st', Ok out) ->
  valid_batch c st (eff b cs0) = true /\ st' = fst (padd_ok c st (eff b cs0)) /\
  out = snd (padd_ok c st (eff b cs0)) /\ (b = true -> plc c = false).
Proof.
  unfold padd. fold (eff b cs0). destruct (b && plc c) eqn:E; [discriminate|].
  destruct (valid_batch c st (eff b cs0)) eqn:V; simpl; [|discriminate].
  intros H. inversion H; subst. repeat split; auto.
  intros ->. simpl in E. exact E.
Qed.

Lemma padd_err c (st : pstate) b (cs0 : list pcand) st' e : padd c st b cs0 = (st', Err e) -> st' = st.
Proof.
  unfold padd. destruct (b && plc c); [intros H; inversion H; auto|].
  destruct (negb _); intros H; inversion H; auto.
Qed.

Lemma valid_near c (st : pstate) (cs : list pcand) : valid_batch c st cs = true -> near_lt c (psize st) cs.
Proof.
  unfold valid_batch. intros H. apply andb_true_iff in H. destruct H as [_ H].
  intros Hlc x Hx Hn. rewrite Hlc in H. simpl in H. rewrite forallb_forall in H.
  specialize (H x Hx). rewrite Hn in H. simpl in H. unfold near_ok, all_ge in H.
  apply andb_true_iff in H. destruct H as [H _]. apply Nat.ltb_lt in H. exact H.
Qed.

Lemma valid_len c (st : pstate) (cs : list pcand) x : valid_batch c st cs = true -> In x cs -> length (pc_dists x) = psize st.
Proof.
  unfold valid_batch. intros H Hx. apply andb_true_iff in H. destruct H as [H _].
  rewrite forallb_forall in H. apply Nat.eqb_eq, H, Hx.
Qed.

Lemma valid_near_min c (st : pstate) (cs : list pcand) x : valid_batch c st cs = true -> plc c = true -> In x cs ->
  is_novel c (psize st) x = false ->
  pc_near x < psize st /\ forall d, In d (pc_dists x) -> (dist_at (pc_dists x) (pc_near x) <= d)%Q.
Proof.
  unfold valid_batch. intros H Hlc Hx Hn. apply andb_true_iff in H. destruct H as [_ H].
  rewrite Hlc in H. simpl in H. rewrite forallb_forall in H.
  specialize (H x Hx). rewrite Hn in H. simpl in H. unfold near_ok, all_ge in H.
  apply andb_true_iff in H. destruct H as [H1 H2]. apply Nat.ltb_lt in H1. split; auto.
  rewrite forallb_forall in H2. intros d Hd. apply Qle_bool_iff, H2, Hd.
Qed.

Lemma padd_pinv c (st : pstate) b (cs0 : list pcand) : PInv st -> PInv (fst (padd c st b cs0)).
Proof.
  intros HP. destruct (padd c st b cs0) as [st' [out|e]] eqn:E; simpl.
  - destruct (padd_inv _ _ _ _ E) as (Hv & -> & _). apply padd_ok_inv; auto. apply valid_near; auto.
  - rewrite (padd_err _ _ _ _ E). exact HP.
Qed.

Lemma pclear_pinv (st : pstate) : PInv st -> PInv (pclear st).
Proof.
  intros HP. constructor; simpl.
  - apply clear_inv, (pi_inv HP).
  - reflexivity.
  - exact (pi_cap HP).
  - intros i r. unfold pcontent, pclear. simpl. rewrite clear_content. discriminate.
  - discriminate.
  - discriminate.
Qed.

Lemma pstart_pinv c : 1 <= pcap0 c -> PInv (pstart P c).
Proof.
  intros Hc. constructor; simpl.
  - apply init_inv.
  - reflexivity.
  - exact Hc.
  - intros i r. unfold pcontent, pstart. simpl. rewrite init_content. discriminate.
  - discriminate.
  - discriminate.
Qed.

Lemma read_lo_pinv (st : pstate) : PInv st -> PInv (fst (read_lo meas st)).
Proof.
  intros HP. unfold read_lo. destruct (ps_lo st) eqn:E; simpl; auto.
  destruct (Nat.eqb_spec (psize st) 0); simpl; auto.
  destruct HP as [H1 H2 H3 H4 H5 H6]. constructor; simpl; auto.
  intros v Hv. inversion Hv; subst. split; auto.
Qed.

Lemma read_hi_pinv (st : pstate) : PInv st -> PInv (fst (read_hi meas st)).
Proof.
  intros HP. unfold read_hi. destruct (ps_hi st) eqn:E; simpl; auto.
  destruct (Nat.eqb_spec (psize st) 0); simpl; auto.
  destruct HP as [H1 H2 H3 H4 H5 H6]. constructor; simpl; auto.
  intros v Hv. inversion Hv; subst. split; auto.
Qed.

Lemma pstep_pinv c (st : pstate) o : PInv st -> PInv (pstep meas c st o).
Proof.
  intros HP. destruct o; simpl.
  - apply padd_pinv; auto.
  - apply padd_pinv; auto.
  - apply pclear_pinv; auto.
  - apply read_lo_pinv; auto.
  - apply read_hi_pinv; auto.
Qed.

Lemma psteps_pinv c h : forall st : pstate, PInv st -> PInv (fold_left (pstep meas c) h st).
Proof. induction h as [|o t IH]; intros st HP; simpl; auto. apply IH, pstep_pinv; auto. Qed.

Theorem prun_pinv c h : 1 <= pcap0 c -> PInv (prun meas c h).
Proof. intros Hc. apply psteps_pinv, pstart_pinv; auto. Qed.

End PP.
