(** C12 -- part C of the finite enumeration (entry point x arity x path variant x layout vector), evaluated by the
    kernel's virtual machine.  Split over four files only so that the build runs them in parallel. *)
From Coq Require Import List Bool.
From PV Require Import Model.Alias Proofs.AliasSound.
Import ListNotations.

Definition eps_C : list ep :=
  [GOETellDqd].

Lemma enum_C : forallb check_ep2 eps_C = true.
Proof. vm_cast_no_check (eq_refl true). Qed.
