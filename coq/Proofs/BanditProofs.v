(** Lemmas about Model/Bandit.v: the selection relation and the code's argsort + activation loop,
    the reselect mask / fill / deactivation, the invariant of reachable states (num_active active
    emitters, counters equal to what the spies saw). *)
From Coq Require Import List Arith Bool Lia ZArith QArith Sorted.
From PV Require Import Base.ListUtil Base.SliceUtil Model.Store Model.Scheduler Model.Bandit
     Proofs.SchedulerProofs.
Import ListNotations.
Set Implicit Arguments.
Open Scope nat_scope.

(** * keys *)

Lemma key_geb_total a b : key_geb a b = false -> key_geb b a = true.
Proof.
  destruct a as [|x|], b as [|y|]; simpl; intros H; try discriminate; auto.
  apply Qle_bool_iff. destruct (Qlt_le_dec x y) as [Hlt|Hle].
  - now apply Qlt_le_weak.
  - apply Qle_bool_iff in Hle. congruence.
Qed.

Lemma key_geb_trans a b c : key_geb a b = true -> key_geb b c = true -> key_geb a c = true.
Proof.
  destruct a as [|x|], b as [|y|], c as [|z|]; simpl; intros H1 H2; try discriminate; auto.
  apply Qle_bool_iff in H1, H2. apply Qle_bool_iff. eapply Qle_trans; eauto.
Qed.

Lemma better_not_geb a b : better a b = true -> key_geb b a = false.
Proof.
  destruct a as [|x|], b as [|y|]; simpl; intros H; try discriminate; auto.
  now apply negb_true_iff in H.
Qed.

(** * ntrue / upd *)

Lemma ntrue_upd_true l i : i < length l -> nth i l false = false -> ntrue (upd l i true) = S (ntrue l).
Proof.
  revert i; induction l as [|b t IH]; intros [|i] Hi Hn; simpl in *; try lia.
  - subst b. reflexivity.
  - rewrite IH by (auto; lia). destruct b; lia.
Qed.

Lemma ntrue_all l : (forall i, i < length l -> nth i l false = true) -> ntrue l = length l.
Proof.
  induction l as [|b t IH]; intros H; simpl; auto.
  rewrite IH.
  - assert (H0 : nth 0 (b :: t) false = true) by (apply H; simpl; lia).
    simpl in H0. subst b. reflexivity.
  - intros i Hi. apply (H (S i)). simpl. lia.
Qed.

Lemma ntrue_le_pointwise l l' :
  length l = length l' -> (forall i, nth i l false = true -> nth i l' false = true) -> ntrue l <= ntrue l'.
Proof.
  revert l'; induction l as [|b t IH]; intros [|b' t'] Hlen H; simpl in *; try lia.
  assert (Ht : ntrue t <= ntrue t') by (apply IH; [lia|intros i Hi; apply (H (S i)); exact Hi]).
  specialize (H 0). simpl in H. destruct b, b'; try lia; specialize (H eq_refl); discriminate.
Qed.

(** * descending argsort *)

Section Sort.
Variable keys : list key.
Notation kof := (fun i => nth i keys KUndef).
Definition geb_idx (i j : nat) : Prop := key_geb (kof i) (kof j) = true.

Lemma insert_desc_In i l x : In x (insert_desc keys i l) <-> x = i \/ In x l.
Proof.
  induction l as [|j t IH]; simpl; [intuition|].
  destruct (key_geb (kof i) (kof j)); simpl; [intuition|]. rewrite IH. intuition.
Qed.

Lemma insert_desc_sorted i l : StronglySorted geb_idx l -> StronglySorted geb_idx (insert_desc keys i l).
Proof.
  induction 1 as [|j t Hs IH Hf]; simpl.
  - constructor; constructor.
  - destruct (key_geb (kof i) (kof j)) eqn:E.
    + constructor; [constructor; auto|]. constructor; [exact E|].
      rewrite Forall_forall in *. intros y Hy. unfold geb_idx in *.
      eapply key_geb_trans; [exact E|]. now apply Hf.
    + constructor; auto. rewrite Forall_forall in *. intros y Hy.
      apply insert_desc_In in Hy. destruct Hy as [->|Hy]; [|now apply Hf].
      unfold geb_idx. now apply key_geb_total.
Qed.

Lemma argsort_desc_In x : In x (argsort_desc keys) <-> x < length keys.
Proof.
  unfold argsort_desc. generalize (length keys) as n. intros n.
  assert (H : forall l, In x (fold_right (insert_desc keys) [] l) <-> In x l).
  { induction l as [|i t IH]; simpl; [tauto|]. rewrite insert_desc_In, IH. intuition. }
  rewrite H, in_seq. lia.
Qed.

Lemma argsort_desc_sorted : StronglySorted geb_idx (argsort_desc keys).
Proof.
  unfold argsort_desc. induction (seq 0 (length keys)) as [|i t IH]; simpl; [constructor|].
  now apply insert_desc_sorted.
Qed.

(** * the activation loop *)
Lemma activate_loop_spec order : forall act c k,
  c = ntrue act -> c <= k -> (forall i, In i order -> i < length act) ->
  StronglySorted geb_idx order ->
  let act' := activate_loop order act c k in
  length act' = length act /\
  ntrue act' <= k /\
  (ntrue act' = k \/ forall i, In i order -> nth i act' false = true) /\
  (forall i, nth i act false = true -> nth i act' false = true) /\
  (forall i, nth i act' false = true -> nth i act false = false ->
     In i order /\ forall j, In j order -> nth j act' false = false -> geb_idx i j).
Proof.
  induction order as [|x t IH]; intros act c k Hc Hck Hrange Hsorted; simpl.
  - split; [reflexivity|]. split; [lia|]. split; [right; intros i []|].
    split; [auto|]. intros i H1 H2. congruence.
  - destruct (Nat.leb_spec k c) as [Hle|Hlt].
    + split; [reflexivity|]. split; [lia|]. split; [left; lia|].
      split; [auto|]. intros i H1 H2. congruence.
    + inversion Hsorted as [|? ? Hs' Hf]; subst.
      rewrite Forall_forall in Hf.
      destruct (nth x act false) eqn:Ex.
      * destruct (IH act (ntrue act) k eq_refl ltac:(lia)
                    (fun i Hi => Hrange i (or_intror Hi)) Hs') as [H1 [H2 [H3 [H4 H5]]]].
        split; [exact H1|]. split; [exact H2|]. split; [|split; [exact H4|]].
        -- destruct H3 as [H3|H3]; [now left|right].
           intros i [<-|Hi]; [now apply H4|now apply H3].
        -- intros i Hi Hni. destruct (H5 i Hi Hni) as [Hin Hord]. split; [now right|].
           intros j [<-|Hj] Hnj.
           ++ rewrite (H4 _ Ex) in Hnj. discriminate.
           ++ now apply Hord.
      * assert (Hx : x < length act) by (apply Hrange; now left).
        assert (Hnt : ntrue (upd act x true) = S (ntrue act)) by (now apply ntrue_upd_true).
        destruct (IH (upd act x true) (S (ntrue act)) k (eq_sym Hnt) ltac:(lia)) as [H1 [H2 [H3 [H4 H5]]]].
        { intros i Hi. rewrite upd_length. apply Hrange. now right. }
        { exact Hs'. }
        assert (Hxa : nth x (activate_loop t (upd act x true) (S (ntrue act)) k) false = true).
        { apply H4. now apply nth_upd_same. }
        split; [now rewrite H1, upd_length|]. split; [exact H2|]. split; [|split].
        -- destruct H3 as [H3|H3]; [now left|right].
           intros i [<-|Hi]; [exact Hxa|now apply H3].
        -- intros i Hi. apply H4. rewrite nth_upd.
           destruct (Nat.eqb x i && Nat.ltb i (length act))%bool; auto.
        -- intros i Hi Hni. split.
           ++ destruct (Nat.eq_dec i x) as [->|Hne]; [now left|right].
              apply (H5 i Hi). rewrite nth_upd_other; auto.
           ++ intros j [<-|Hj] Hnj; [congruence|].
              destruct (Nat.eq_dec i x) as [->|Hne]; [now apply Hf|].
              assert (Hni' : nth i (upd act x true) false = false) by (rewrite nth_upd_other; auto).
              destruct (H5 i Hi Hni') as [_ Hord]. now apply Hord.
Qed.

End Sort.

(** the code's selection meets the specification *)
Theorem select_valid k kept keys :
  length keys = length kept -> ntrue kept <= k -> k <= length kept ->
  valid_selection k kept keys (select k kept keys) = true.
Proof.
  intros Hlen Hk Hn. unfold select.
  destruct (@activate_loop_spec keys (argsort_desc keys) kept (ntrue kept) k eq_refl Hk) as [H1 [H2 [H3 [H4 H5]]]].
  { intros i Hi. apply argsort_desc_In in Hi. lia. }
  { apply argsort_desc_sorted. }
  set (act' := activate_loop (argsort_desc keys) kept (ntrue kept) k) in *.
  unfold valid_selection. rewrite !andb_true_iff. repeat split.
  - now apply Nat.eqb_eq.
  - apply Nat.eqb_eq. destruct H3 as [H3|H3]; auto.
    assert (Hall : ntrue act' = length act').
    { apply ntrue_all. intros i Hi. apply H3. apply argsort_desc_In. lia. }
    lia.
  - apply forallb_forall. intros i _. destruct (nth i kept false) eqn:E; simpl; auto.
  - apply forallb_forall. intros i Hi. apply forallb_forall. intros j Hj.
    apply in_seq in Hj.
    destruct (nth i act' false) eqn:Ei; simpl; auto.
    destruct (nth i kept false) eqn:Eki; simpl; auto.
    destruct (nth j act' false) eqn:Ej; simpl; auto.
    destruct (H5 i Ei Eki) as [_ Hord].
    assert (Hjin : In j (argsort_desc keys)) by (apply argsort_desc_In; lia).
    specialize (Hord j Hjin Ej). unfold geb_idx in Hord.
    destruct (better (nth j keys KUndef) (nth i keys KUndef)) eqn:Eb; auto.
    apply better_not_geb in Eb. congruence.
Qed.

(** * reselect mask, fill, deactivation *)

Lemma map2_length A B C (f : A -> B -> C) la lb : length la = length lb -> length (map2 f la lb) = length la.
Proof.
  revert lb; induction la as [|a ta IH]; intros [|b tb] H; simpl in *; try lia. now rewrite IH by lia.
Qed.

Lemma map2_nth A B C (f : A -> B -> C) la lb i da db dc :
  length la = length lb -> i < length la -> nth i (map2 f la lb) dc = f (nth i la da) (nth i lb db).
Proof.
  revert lb i; induction la as [|a ta IH]; intros [|b tb] i H Hi; simpl in *; try lia.
  destruct i as [|i]; [reflexivity|]. apply IH; lia.
Qed.

Lemma deactivate_length act resel : length act = length resel -> length (deactivate act resel) = length act.
Proof. apply map2_length. Qed.

Lemma deactivate_nth act resel i :
  length act = length resel ->
  nth i (deactivate act resel) false = (nth i act false && negb (nth i resel false))%bool.
Proof.
  unfold deactivate.
  revert resel i; induction act as [|a ta IH]; intros [|r tr] i H; simpl in *; try lia.
  - destruct i; reflexivity.
  - destruct i as [|i]; [reflexivity|]. apply IH; lia.
Qed.

Lemma deactivate_none act resel :
  length act = length resel -> existsb (fun b => b) resel = false -> deactivate act resel = act.
Proof.
  unfold deactivate.
  revert resel; induction act as [|a ta IH]; intros [|r tr] H Hex; simpl in *; try lia; auto.
  apply orb_false_iff in Hex. destruct Hex as [-> Hex]. destruct a; simpl; f_equal; apply IH; auto; lia.
Qed.

Lemma fill_spec resel : forall needed act,
  length resel = length act ->
  let resel' := fst (fill needed resel act) in
  let act' := snd (fill needed resel act) in
  length resel' = length resel /\ length act' = length act /\
  (forall i, nth i act false = true -> nth i act' false = true) /\
  (forall i, nth i resel' false = true -> nth i resel false = true) /\
  (forall i, nth i act' false = true -> nth i act false = false -> nth i resel' false = false) /\
  (needed + ntrue act <= length act -> ntrue act' = ntrue act + needed).
Proof.
  induction resel as [|r rt IH]; intros needed act Hlen.
  - destruct act; [|discriminate]. destruct needed; simpl; repeat split; auto; lia.
  - destruct act as [|a at_]; [discriminate|]. simpl in Hlen.
    destruct needed as [|m].
    + simpl. repeat split; auto; try lia. intros i H1 H2. congruence.
    + simpl. specialize (IH (if a then S m else m) at_ ltac:(lia)).
      destruct (fill (if a then S m else m) rt at_) as [rt' at'] eqn:E. simpl in *.
      destruct IH as [H1 [H2 [H3 [H4 [H5 H6]]]]].
      split; [lia|]. split; [lia|]. split; [|split; [|split]].
      * intros [|i] Hi; auto.
      * intros [|i] Hi; [discriminate|auto].
      * intros [|i] Hi Hn; auto.
      * intros Hle. destruct a; simpl in *; rewrite H6 by lia; lia.
Qed.

Section BanditProofs.
Variable V : Type.
Variable F : Type.
Variable status_nz : F -> bool.
Notation bandit := (bandit V F).
Notation eevent := (eevent V F).

Definition resel0_of (s : bandit) (rin : nat -> Z) : list bool :=
  match reselect s with
  | Terminated => map2 (fun e r => Z.ltb r e || Z.ltb e 0)%bool (map rin (seq 0 (pool s))) (restarts s)
  | AllActive => active s
  end.

Definition restarts_of (s : bandit) (rin : nat -> Z) : list Z :=
  match reselect s with
  | Terminated => map rin (seq 0 (pool s))
  | AllActive => restarts s
  end.

Lemma ask_pre_unfold (s : bandit) rin :
  ask_pre s rin =
  (let f := fill (num_active s - ntrue (active s)) (resel0_of s rin) (active s) in
   (fst f, deactivate (snd f) (fst f), restarts_of s rin)).
Proof.
  unfold ask_pre, resel0_of, restarts_of. destruct (reselect s); simpl;
  match goal with |- context [fill ?a ?b ?c] => destruct (fill a b c) end; reflexivity.
Qed.

(** the lengths part of the invariant *)
Definition Shape (s : bandit) : Prop :=
  let n := pool s in
  length (success s) = n /\ length (selection s) = n /\ length (restarts s) = n /\
  length (num_emitted (core s)) = n /\ length (elog (core s)) = n /\
  num_active s <= n /\ ntrue (active s) <= num_active s.

Lemma resel0_length (s : bandit) rin : Shape s -> length (resel0_of s rin) = pool s.
Proof.
  intros [_ [_ [Hr _]]]. unfold resel0_of. destruct (reselect s); auto.
  rewrite map2_length; rewrite map_length, seq_length; auto.
Qed.

Lemma ask_pre_spec (s : bandit) rin :
  Shape s ->
  let resel := fst (fst (ask_pre s rin)) in
  let kept := snd (fst (ask_pre s rin)) in
  let n := pool s in
  length resel = n /\ length kept = n /\ length (snd (ask_pre s rin)) = n /\
  ntrue kept <= num_active s /\
  (existsb (fun b => b) resel = false -> ntrue kept = num_active s) /\
  (forall i, nth i (active s) false = true -> nth i (resel0_of s rin) false = false ->
             nth i kept false = true) /\
  (reselect s = AllActive -> ntrue (active s) = num_active s -> forall i, nth i kept false = false).
Proof.
  intros Hs. pose proof Hs as [Hsu [Hse [Hre [Hnu [Hel [Hk Hact]]]]]].
  rewrite ask_pre_unfold. simpl.
  pose proof (resel0_length rin Hs) as Hr0.
  destruct (@fill_spec (resel0_of s rin) (num_active s - ntrue (active s)) (active s) Hr0)
    as [H1 [H2 [H3 [H4 [H5 H6]]]]].
  set (f := fill (num_active s - ntrue (active s)) (resel0_of s rin) (active s)) in *.
  assert (Hlenf : length (snd f) = length (fst f)) by (unfold pool in *; lia).
  assert (Hact1 : ntrue (snd f) = num_active s).
  { rewrite H6; [lia|]. unfold pool in *. pose proof (ntrue_le (active s)). lia. }
  split; [unfold pool in *; lia|]. split; [rewrite deactivate_length; unfold pool in *; lia|].
  split.
  { unfold restarts_of. destruct (reselect s); auto. now rewrite map_length, seq_length. }
  split.
  { rewrite <- Hact1. apply ntrue_le_pointwise.
    - now apply deactivate_length.
    - intros i Hi. rewrite deactivate_nth in Hi by auto. now apply andb_true_iff in Hi. }
  split.
  { intros Hex. rewrite deactivate_none by auto. exact Hact1. }
  split.
  { intros i Ha Hr. rewrite deactivate_nth by auto. rewrite (H3 i Ha). simpl.
    destruct (nth i (fst f) false) eqn:E; auto. rewrite (H4 i E) in Hr. discriminate. }
  intros Hall Hfull i.
  assert (Hf : f = (active s, active s)).
  { unfold f, resel0_of. rewrite Hall, Hfull, Nat.sub_diag.
    destruct (active s) as [|a t]; reflexivity. }
  rewrite Hf. simpl. rewrite deactivate_nth by auto. destruct (nth i (active s) false); reflexivity.
Qed.

(** ** the selection relation, unpacked *)
Lemma valid_selection_spec k kept keys chosen :
  valid_selection k kept keys chosen = true <->
  length chosen = length kept /\ ntrue chosen = k /\
  (forall i, nth i kept false = true -> nth i chosen false = true) /\
  (forall i j, i < length kept -> j < length kept ->
     nth i chosen false = true -> nth i kept false = false -> nth j chosen false = false ->
     better (nth j keys KUndef) (nth i keys KUndef) = false).
Proof.
  unfold valid_selection. rewrite !andb_true_iff, !Nat.eqb_eq, !forallb_forall. split.
  - intros [[[H1 H2] H3] H4]. split; [auto|]. split; [auto|]. split.
    + intros i Hi. destruct (Nat.lt_ge_cases i (length kept)) as [Hlt|Hge].
      * specialize (H3 i ltac:(apply in_seq; lia)). rewrite Hi in H3. exact H3.
      * rewrite nth_overflow in Hi by auto. discriminate.
    + intros i j Hi Hj Hci Hki Hcj.
      specialize (H4 i ltac:(apply in_seq; lia)). rewrite forallb_forall in H4.
      specialize (H4 j ltac:(apply in_seq; lia)). rewrite Hci, Hki, Hcj in H4. simpl in H4.
      now apply negb_true_iff in H4.
  - intros [H1 [H2 [H3 H4]]]. repeat split; auto.
    + intros i _. destruct (nth i kept false) eqn:E; simpl; auto.
    + intros i Hi. apply forallb_forall. intros j Hj. apply in_seq in Hi, Hj.
      destruct (nth i chosen false) eqn:Ei; simpl; auto.
      destruct (nth i kept false) eqn:Ek; simpl; auto.
      destruct (nth j chosen false) eqn:Ej; simpl; auto.
      rewrite (H4 i j); auto; lia.
Qed.

Lemma ucb_keys_length sel scores : length (ucb_keys sel scores) = length sel.
Proof. unfold ucb_keys. now rewrite map_length, seq_length. Qed.

Lemma ucb_keys_nth sel scores i :
  i < length sel ->
  nth i (ucb_keys sel scores) KUndef =
  if Nat.eqb (nth i sel 0) 0 then KInf else match scores i with Some q => KFin q | None => KUndef end.
Proof. intros H. unfold ucb_keys. now rewrite nth_map_seq. Qed.

(** ** ask *)

(** the active set after an accepted ask *)
Definition new_active (s : bandit) (rin : nat -> Z) (scores : nat -> option Q) (chosen : list bool) : list bool :=
  let resel := fst (fst (ask_pre s rin)) in
  let kept := snd (fst (ask_pre s rin)) in
  if existsb (fun b => b) resel then
    if valid_selection (num_active s) kept (ucb_keys (selection s) scores) chosen then chosen
    else select (num_active s) kept (ucb_keys (selection s) scores)
  else kept.

Lemma bandit_ask_illegal (s : bandit) rin scores chosen resp :
  last_is (last_called (core s)) CAsk = true ->
  bandit_ask s rin scores chosen resp = (s, Err RuntimeError).
Proof. unfold bandit_ask. intros H. now rewrite H. Qed.

Lemma bandit_ask_legal (s : bandit) rin scores chosen resp :
  last_is (last_called (core s)) CAsk = false ->
  bandit_ask s rin scores chosen resp =
  (let c := core s in
   let act' := new_active s rin scores chosen in
   let r := ask_route false (where_true act') resp (num_emitted c) (elog c) in
   (mkBandit (mkSched (Some CAsk) (fst (fst r)) (snd (fst r)) (arch c) (rarch c) (mode c) (snd r))
             act' (success s) (selection s) (snd (ask_pre s rin)) (num_active s) (reselect s),
    Ok (ORows (fst (fst r))))).
Proof.
  unfold bandit_ask, new_active. intros H. rewrite H.
  destruct (ask_pre s rin) as [[resel kept] rs]. reflexivity.
Qed.

Lemma new_active_spec (s : bandit) rin scores chosen :
  Shape s ->
  let kept := snd (fst (ask_pre s rin)) in
  let act' := new_active s rin scores chosen in
  length act' = pool s /\ ntrue act' = num_active s /\
  (forall i, nth i kept false = true -> nth i act' false = true) /\
  (existsb (fun b => b) (fst (fst (ask_pre s rin))) = true ->
     valid_selection (num_active s) kept (ucb_keys (selection s) scores) act' = true) /\
  (existsb (fun b => b) (fst (fst (ask_pre s rin))) = false -> act' = kept).
Proof.
  intros Hs kept act'. pose proof Hs as [Hsu [Hse [Hre [Hnu [Hel [Hk Hact]]]]]].
  destruct (ask_pre_spec rin Hs) as [H1 [H2 [H3 [H4 [H5 _]]]]]. fold kept in H2, H4, H5.
  unfold act', new_active. fold kept.
  destruct (existsb (fun b => b) (fst (fst (ask_pre s rin)))) eqn:Eany.
  - assert (Hv : valid_selection (num_active s) kept (ucb_keys (selection s) scores)
             (if valid_selection (num_active s) kept (ucb_keys (selection s) scores) chosen then chosen
              else select (num_active s) kept (ucb_keys (selection s) scores)) = true).
    { destruct (valid_selection (num_active s) kept (ucb_keys (selection s) scores) chosen) eqn:Ev; auto.
      apply select_valid; [rewrite ucb_keys_length; lia|exact H4|lia]. }
    pose proof (proj1 (valid_selection_spec _ _ _ _) Hv) as [Hv1 [Hv2 [Hv3 _]]].
    split; [lia|]. split; [exact Hv2|]. split; [exact Hv3|]. split; [auto|discriminate].
  - split; [exact H2|]. split; [now apply H5|]. split; [auto|]. split; [discriminate|reflexivity].
Qed.

(** ** tell *)
Notation count_nz := (count_nz status_nz).
Notation credit := (credit status_nz).

Lemma credit_spec (ds : list (nat * told V F)) : forall nums sel suc,
  NoDup (map fst ds) ->
  let sel' := fst (credit ds nums sel suc) in
  let suc' := snd (credit ds nums sel suc) in
  length sel' = length sel /\ length suc' = length suc /\
  (forall i, ~ In i (map fst ds) -> nth i sel' 0 = nth i sel 0 /\ nth i suc' 0 = nth i suc 0) /\
  (forall i t, In (i, t) ds -> i < length sel -> i < length suc ->
     nth i sel' 0 = nth i sel 0 + nth i nums 0 /\
     nth i suc' 0 = nth i suc 0 + count_nz (t_info t)).
Proof.
  induction ds as [|[k t] rest IH]; intros nums sel suc Hnd; simpl.
  - split; [reflexivity|]. split; [reflexivity|]. split; [auto|]. intros i t [].
  - inversion Hnd as [|? ? Hnotin Hnd']; subst.
    specialize (IH nums (upd sel k (nth k sel 0 + nth k nums 0))
                   (upd suc k (nth k suc 0 + count_nz (t_info t))) Hnd').
    destruct IH as [H1 [H2 [H3 H4]]]. rewrite !upd_length in *.
    split; [exact H1|]. split; [exact H2|]. split.
    + intros i Hi. destruct (H3 i ltac:(tauto)) as [Ha Hb]. rewrite Ha, Hb.
      rewrite !nth_upd_other by tauto. auto.
    + intros i t' [Heq|Hin] Hi1 Hi2.
      * inversion Heq; subst. destruct (H3 i Hnotin) as [Ha Hb]. rewrite Ha, Hb.
        rewrite !nth_upd_same by auto. auto.
      * assert (Hne : k <> i).
        { intros ->. apply Hnotin. apply (in_map fst) in Hin. exact Hin. }
        destruct (H4 i t' Hin Hi1 Hi2) as [Ha Hb]. rewrite Ha, Hb.
        rewrite !nth_upd_other by auto. auto.
Qed.

Lemma bandit_tell_illegal (s : bandit) a :
  last_is (last_called (core s)) CAsk = false -> bandit_tell status_nz s a = (s, Err RuntimeError).
Proof. unfold bandit_tell. intros H. now rewrite H. Qed.

Definition with_core (s : bandit) (c' : sched V F) : bandit :=
  mkBandit c' (active s) (success s) (selection s) (restarts s) (num_active s) (reselect s).

Definition set_tell (c : sched V F) ar rr el : sched V F :=
  mkSched (Some CTell) (cur c) (num_emitted c) ar rr (mode c) el.

Lemma bandit_tell_badlen (s : bandit) a :
  last_is (last_called (core s)) CAsk = true ->
  lens_ok (length (cur (core s))) (ta_data a) = false ->
  bandit_tell status_nz s a =
  (with_core s (set_tell (core s) (arch (core s)) (rarch (core s)) (elog (core s))), Err ValueError).
Proof. unfold bandit_tell. intros H1 H2. rewrite H1, H2. reflexivity. Qed.

Lemma bandit_tell_go (s : bandit) a :
  last_is (last_called (core s)) CAsk = true ->
  lens_ok (length (cur (core s))) (ta_data a) = true ->
  bandit_tell status_nz s a =
  (let c := core s in
   let n := length (cur c) in
   let data := ta_data a ++ [Some (cur c)] in
   match add_to_archives (mode c) n data (ta_fb a) (ta_fail a) (arch c) (rarch c) with
   | (ar, rr, Err e) => (with_core s (set_tell c ar rr (elog c)), Err e)
   | (ar, rr, Ok info) =>
       let ds := deliveries (where_true (active s)) (num_emitted c) 0 data None info in
       let cr := credit ds (num_emitted c) (selection s) (success s) in
       (mkBandit (set_tell c ar rr (push_all (elog c) (map (fun d => (fst d, Told false (snd d))) ds)))
                 (active s) (snd cr) (fst cr) (restarts s) (num_active s) (reselect s),
        Ok ONone)
   end).
Proof.
  unfold bandit_tell. intros H1 H2. rewrite H1, H2. simpl.
  destruct (add_to_archives (mode (core s)) (length (cur (core s))) (ta_data a ++ [Some (cur (core s))])
                            (ta_fb a) (ta_fail a) (arch (core s)) (rarch (core s))) as [[ar rr] [info|e]];
    [|reflexivity].
  match goal with |- context [Bandit.credit ?f ?a ?b ?c ?d] => destruct (Bandit.credit f a b c d) end.
  reflexivity.
Qed.

(** ** step specifications *)

Lemma sum_nat_firstn_nth_le lens p :
  p < length lens -> sum_nat (firstn p lens) + nth p lens 0 <= sum_nat lens.
Proof.
  revert p; induction lens as [|x t IH]; intros p Hp; simpl in *; [lia|].
  destruct p as [|p]; simpl; [lia|]. specialize (IH p ltac:(lia)). lia.
Qed.

Lemma sum_nat_map_snoc A (f : A -> nat) l x : sum_nat (map f (l ++ [x])) = sum_nat (map f l) + f x.
Proof. rewrite map_app, sum_nat_app. simpl. lia. Qed.

(** an accepted ask: the new active set is [new_active]; exactly the active emitters are asked,
    their counts recorded; nothing else changes *)
Theorem bandit_ask_spec (s : bandit) rin scores chosen resp :
  Shape s -> last_is (last_called (core s)) CAsk = false ->
  let c := core s in
  let act' := new_active s rin scores chosen in
  let sols := concat (map resp (where_true act')) in
  exists nums el,
    bandit_ask s rin scores chosen resp =
      (mkBandit (mkSched (Some CAsk) sols nums (arch c) (rarch c) (mode c) el)
                act' (success s) (selection s) (snd (ask_pre s rin)) (num_active s) (reselect s),
       Ok (ORows sols)) /\
    length nums = pool s /\ length el = pool s /\
    (forall i, nth i act' false = true ->
       nth i nums 0 = length (resp i) /\ nth i el [] = nth i (elog c) [] ++ [Asked false (resp i)]) /\
    (forall i, nth i act' false = false ->
       nth i nums 0 = nth i (num_emitted c) 0 /\ nth i el [] = nth i (elog c) []).
Proof.
  intros Hs Hl c act' sols. pose proof Hs as [Hsu [Hse [Hre [Hnu [Hel [Hk Hact]]]]]].
  destruct (@new_active_spec s rin scores chosen Hs) as [Hlen [Hnt _]]. fold act' in Hlen, Hnt.
  rewrite bandit_ask_legal by auto. cbv zeta. fold c act'.
  set (r := ask_route false (where_true act') resp (num_emitted c) (elog c)).
  exists (snd (fst r)), (snd r).
  assert (Hcur : fst (fst r) = sols) by apply ask_route_cur.
  rewrite Hcur. split; [reflexivity|].
  split; [unfold r; rewrite ask_route_nums_len; exact Hnu|].
  split; [unfold r; rewrite ask_route_elog_len; exact Hel|].
  split.
  - intros i Hi. assert (Hin : In i (where_true act')) by (now apply where_true_In).
    assert (Hlt : i < pool s) by (rewrite <- Hlen; now apply where_true_lt).
    split.
    + unfold r. apply ask_route_nums_hit; auto; [apply where_true_NoDup|fold c in Hnu; lia].
    + unfold r. apply ask_route_elog_hit; auto; [apply where_true_NoDup|fold c in Hel; lia].
  - intros i Hi. assert (Hnin : ~ In i (where_true act')).
    { intros Hin. apply where_true_In in Hin. congruence. }
    split; unfold r; [now apply ask_route_nums_miss|now apply ask_route_elog_miss].
Qed.

Definition told_rows (e : eevent) : nat :=
  match e with
  | Told _ t => match last (t_data t) None with Some l => length l | None => 0 end
  | Asked _ _ => 0
  end.

Definition told_succ (e : eevent) : nat :=
  match e with
  | Told _ t => count_nz (t_info t)
  | Asked _ _ => 0
  end.

(** the invariant of reachable states *)
Definition Inv (s : bandit) : Prop :=
  Shape s /\
  (last_called (core s) <> None -> ntrue (active s) = num_active s) /\
  (last_called (core s) = Some CAsk ->
     length (cur (core s)) =
     sum_nat (map (fun i => nth i (num_emitted (core s)) 0) (where_true (active s)))) /\
  (forall i, i < pool s ->
     nth i (selection s) 0 = sum_nat (map told_rows (nth i (elog (core s)) [])) /\
     nth i (success s) 0 = sum_nat (map told_succ (nth i (elog (core s)) []))).

(** a well-formed tell in order: every active emitter, and no other, is told its slice; its
    counters grow by the number of rows / of non-zero statuses in that slice *)
Theorem bandit_tell_spec (s : bandit) a :
  Shape s -> last_is (last_called (core s)) CAsk = true ->
  lens_ok (length (cur (core s))) (ta_data a) = true -> ta_fail a = None ->
  let c := core s in
  let n := length (cur c) in
  let data := ta_data a ++ [Some (cur c)] in
  let info := map (ta_fb a) (seq 0 n) in
  let idxs := where_true (active s) in
  let lens := map (fun j => nth j (num_emitted c) 0) idxs in
  exists sel suc el,
    bandit_tell status_nz s a =
      (mkBandit (set_tell c (arch c ++ ins_events (mode c) n data)
                          (option_map (fun l => l ++ ins_events (mode c) n data) (rarch c)) el)
                (active s) suc sel (restarts s) (num_active s) (reselect s),
       Ok ONone) /\
    length sel = pool s /\ length suc = pool s /\ length el = pool s /\
    (forall p i, nth_error idxs p = Some i ->
       let start := sum_nat (firstn p lens) in
       let t := expected_told start (nth i (num_emitted c) 0) data None info in
       nth i el [] = nth i (elog c) [] ++ [Told false t] /\
       nth i sel 0 = nth i (selection s) 0 + nth i (num_emitted c) 0 /\
       nth i suc 0 = nth i (success s) 0 + count_nz (t_info t)) /\
    (forall i, nth i (active s) false = false ->
       nth i el [] = nth i (elog c) [] /\ nth i sel 0 = nth i (selection s) 0 /\
       nth i suc 0 = nth i (success s) 0).
Proof.
  intros Hs Hl Hlens Hfail c n data info idxs lens.
  pose proof Hs as [Hsu [Hse [Hre [Hnu [Hel [Hk Hact]]]]]].
  rewrite bandit_tell_go by auto. fold c. cbv zeta. fold n data. rewrite Hfail.
  rewrite add_to_archives_ok. fold info idxs.
  set (ds := deliveries idxs (num_emitted c) 0 data None info).
  assert (Hfst : map fst ds = idxs) by apply deliveries_fst.
  assert (Hnd : NoDup (map fst ds)) by (rewrite Hfst; apply where_true_NoDup).
  destruct (@credit_spec ds (num_emitted c) (selection s) (success s) Hnd) as [C1 [C2 [C3 C4]]].
  eexists _, _, _. split; [reflexivity|].
  split; [lia|]. split; [lia|]. split; [rewrite push_all_length; exact Hel|].
  split.
  - intros p i Hp.
    set (start := sum_nat (firstn p lens)).
    set (t := expected_told start (nth i (num_emitted c) 0) data None info).
    assert (Hin : In i idxs) by (eapply nth_error_In; eauto).
    assert (Hlt : i < pool s) by (now apply where_true_lt).
    pose proof (@deliveries_nth_error V F idxs (num_emitted c) 0 data None info p i Hp) as Hd.
    cbv zeta in Hd. simpl in Hd. fold lens start in Hd. rewrite mk_told_expected in Hd. fold t in Hd.
    fold ds in Hd.
    split.
    + eapply push_all_hit with (p := p); [fold c in Hel; lia| |].
      * rewrite map_map. simpl. exact Hnd.
      * rewrite nth_error_map, Hd. reflexivity.
    + apply C4; [eapply nth_error_In; eauto|lia|lia].
  - intros i Hi.
    assert (Hnin : ~ In i (map fst ds)).
    { rewrite Hfst. intros Hin. apply where_true_In in Hin. congruence. }
    split; [|now apply C3].
    apply push_all_miss. rewrite map_map. simpl. exact Hnin.
Qed.

(** ** the invariant is preserved *)

Lemma Shape_with_core (s : bandit) ar rr :
  Shape s -> Shape (with_core s (set_tell (core s) ar rr (elog (core s)))).
Proof. unfold Shape, with_core, set_tell, pool. simpl. auto. Qed.

Lemma Inv_with_core (s : bandit) ar rr :
  Inv s -> last_is (last_called (core s)) CAsk = true ->
  Inv (with_core s (set_tell (core s) ar rr (elog (core s)))).
Proof.
  intros [Hs [Hn [Hc Hcount]]] Hl. split; [now apply Shape_with_core|].
  split; [|split].
  - intros _. simpl. apply Hn. destruct (last_called (core s)); [discriminate|discriminate Hl].
  - simpl. discriminate.
  - exact Hcount.
Qed.

Lemma ask_Inv (s : bandit) rin scores chosen resp :
  Inv s -> Inv (fst (bandit_ask s rin scores chosen resp)).
Proof.
  intros HI. destruct (last_is (last_called (core s)) CAsk) eqn:Hl.
  - now rewrite bandit_ask_illegal.
  - destruct HI as [Hs [Hn [Hc Hcount]]].
    pose proof Hs as [Hsu [Hse [Hre [Hnu [Hel [Hk Hact]]]]]].
    destruct (@new_active_spec s rin scores chosen Hs) as [Hlen [Hnt _]].
    destruct (ask_pre_spec rin Hs) as [_ [_ [Hrs _]]].
    destruct (@bandit_ask_spec s rin scores chosen resp Hs Hl) as [nums [el [E [Hln [Hle [Hhit Hmiss]]]]]].
    rewrite E. simpl. set (act' := new_active s rin scores chosen) in *.
    split; [|split; [|split]].
    + unfold Shape, pool. simpl. rewrite Hlen. unfold pool in *. repeat split; auto; lia.
    + simpl. intros _. exact Hnt.
    + simpl. intros _. rewrite length_concat, map_map. f_equal.
      apply map_ext_in. intros i Hi. apply where_true_In in Hi. symmetry. now apply Hhit.
    + unfold pool. simpl. rewrite Hlen. intros i Hi. specialize (Hcount i Hi).
      destruct (nth i act' false) eqn:Ea.
      * destruct (Hhit i Ea) as [_ ->]. rewrite !sum_nat_map_snoc. simpl. rewrite !Nat.add_0_r. exact Hcount.
      * destruct (Hmiss i Ea) as [_ ->]. exact Hcount.
Qed.

Lemma add_to_archives_cases m n (data : list (column V)) (fb : nat -> F) fail a r :
  (exists ar rr, add_to_archives m n data fb fail a r = (ar, rr, Err ValueError)) \/
  add_to_archives m n data fb fail a r = add_to_archives m n data fb None a r.
Proof.
  destruct fail as [k|]; [|now right].
  destruct m.
  - left. simpl. eauto.
  - destruct (Nat.lt_ge_cases k n) as [Hlt|Hge].
    + left. rewrite add_to_archives_fail by auto. eauto.
    + right. simpl. rewrite !single_loop_ok; auto; try discriminate.
      intros k' Hk' Hin. inversion Hk'; subst. apply in_seq in Hin. lia.
Qed.

Lemma expected_told_rows start m (data : list (column V)) (l : list V) jac (info : list F) :
  start + m <= length l ->
  told_rows (Told false (expected_told start m (data ++ [Some l]) jac info)) = m.
Proof.
  intros H. simpl. rewrite map_app. simpl. rewrite last_last.
  rewrite firstn_length, skipn_length. lia.
Qed.

Lemma tell_Inv (s : bandit) a : Inv s -> Inv (fst (bandit_tell status_nz s a)).
Proof.
  intros HI. destruct (last_is (last_called (core s)) CAsk) eqn:Hl.
  2:{ now rewrite bandit_tell_illegal. }
  destruct (lens_ok (length (cur (core s))) (ta_data a)) eqn:Hlens.
  2:{ rewrite bandit_tell_badlen by auto. now apply Inv_with_core. }
  destruct (add_to_archives_cases (mode (core s)) (length (cur (core s))) (ta_data a ++ [Some (cur (core s))])
              (ta_fb a) (ta_fail a) (arch (core s)) (rarch (core s))) as [[ar [rr E]]|E].
  { rewrite bandit_tell_go by auto. cbv zeta. rewrite E. now apply Inv_with_core. }
  (* the archive accepted everything: same as a tell without failure oracle *)
  set (a' := mkTellArgs (ta_data a) (ta_jac a) (ta_fb a) None).
  assert (Ea : bandit_tell status_nz s a = bandit_tell status_nz s a').
  { rewrite !bandit_tell_go by auto. cbv zeta. unfold a' at 3. simpl ta_fail. rewrite E. reflexivity. }
  rewrite Ea.
  destruct HI as [Hs [Hn [Hc Hcount]]].
  pose proof Hs as [Hsu [Hse [Hre [Hnu [Hel [Hk Hact]]]]]].
  assert (Hlast : last_called (core s) = Some CAsk).
  { destruct (last_called (core s)) as [[]|]; try discriminate; reflexivity. }
  destruct (@bandit_tell_spec s a' Hs Hl Hlens eq_refl) as [sel [suc [el [Et [L1 [L2 [L3 [Hhit Hmiss]]]]]]]].
  rewrite Et. simpl.
  split; [|split; [|split]].
  - unfold Shape, pool in *. simpl. repeat split; auto; lia.
  - simpl. intros _. apply Hn. congruence.
  - simpl. discriminate.
  - unfold pool. simpl. intros i Hi. specialize (Hcount i Hi).
    destruct (nth i (active s) false) eqn:Ea'.
    + assert (Hin : In i (where_true (active s))) by (now apply where_true_In).
      destruct (In_nth_error _ _ Hin) as [p Hp].
      destruct (Hhit p i Hp) as [-> [-> ->]].
      rewrite !sum_nat_map_snoc.
      destruct Hcount as [-> ->]. split; [|reflexivity]. f_equal.
      unfold a'. simpl ta_data. rewrite expected_told_rows; [reflexivity|].
      rewrite (Hc Hlast).
      set (lens := map (fun j => nth j (num_emitted (core s)) 0) (where_true (active s))).
      assert (Hpl : p < length lens).
      { unfold lens. rewrite map_length. apply nth_error_Some. congruence. }
      pose proof (sum_nat_firstn_nth_le lens Hpl) as Hle.
      assert (Hnp : nth p lens 0 = nth i (num_emitted (core s)) 0).
      { unfold lens. apply nth_error_nth.
        exact (map_nth_error (fun j => nth j (num_emitted (core s)) 0) p _ Hp). }
      lia.
    + destruct (Hmiss i Ea') as [-> [-> ->]]. exact Hcount.
Qed.

Lemma step_Inv (s : bandit) (o : bop V F) : Inv s -> Inv (fst (bandit_step status_nz s o)).
Proof.
  destruct o; simpl; auto.
  - apply ask_Inv.
  - apply tell_Inv.
Qed.

Lemma run_Inv (ops : list (bop V F)) (s : bandit) : Inv s -> Inv (fst (bandit_run status_nz s ops)).
Proof.
  revert s; induction ops as [|o t IH]; intros s H; simpl; auto.
  destruct (bandit_step status_nz s o) as [s1 r] eqn:E1.
  destruct (bandit_run status_nz s1 t) as [s2 rs] eqn:E2. simpl.
  specialize (IH s1). rewrite E2 in IH. apply IH.
  pose proof (step_Inv o H) as H1. now rewrite E1 in H1.
Qed.

Lemma init_Inv n k rm m wr : k <= n -> Inv (bandit_init n k rm m wr : bandit).
Proof.
  intros Hk. unfold Inv, Shape, bandit_init, pool. simpl. rewrite !repeat_length.
  rewrite ntrue_repeat_false.
  split; [repeat split; auto; lia|]. split; [congruence|]. split; [discriminate|].
  intros i Hi. rewrite !nth_repeat. simpl. auto.
Qed.

(** configuration never changes *)
Lemma step_config (s : bandit) (o : bop V F) :
  Shape s ->
  let s' := fst (bandit_step status_nz s o) in
  num_active s' = num_active s /\ reselect s' = reselect s /\ pool s' = pool s.
Proof.
  intros Hs. destruct o as [rin scores chosen resp|a| |]; simpl; auto.
  - destruct (last_is (last_called (core s)) CAsk) eqn:Hl.
    + rewrite bandit_ask_illegal by auto. auto.
    + rewrite bandit_ask_legal by auto. cbv zeta. unfold pool. simpl.
      destruct (@new_active_spec s rin scores chosen Hs) as [Hlen _]. auto.
  - destruct (last_is (last_called (core s)) CAsk) eqn:Hl.
    2:{ rewrite bandit_tell_illegal by auto. auto. }
    destruct (lens_ok (length (cur (core s))) (ta_data a)) eqn:Hlens.
    2:{ rewrite bandit_tell_badlen by auto. auto. }
    rewrite bandit_tell_go by auto. cbv zeta.
    destruct (add_to_archives (mode (core s)) (length (cur (core s))) (ta_data a ++ [Some (cur (core s))])
                              (ta_fb a) (ta_fail a) (arch (core s)) (rarch (core s))) as [[ar rr] [info|e]];
      simpl; auto.
Qed.

Lemma run_config (ops : list (bop V F)) (s : bandit) :
  Inv s ->
  let s' := fst (bandit_run status_nz s ops) in
  num_active s' = num_active s /\ reselect s' = reselect s /\ pool s' = pool s.
Proof.
  revert s; induction ops as [|o t IH]; intros s H; simpl; auto.
  destruct (bandit_step status_nz s o) as [s1 r] eqn:E1.
  destruct (bandit_run status_nz s1 t) as [s2 rs] eqn:E2. simpl.
  pose proof (step_Inv o H) as H1. pose proof (@step_config s o (proj1 H)) as Hc.
  rewrite E1 in H1, Hc. simpl in H1, Hc.
  specialize (IH s1 H1). rewrite E2 in IH. simpl in IH.
  destruct IH as [A [B C]], Hc as [A' [B' C']]. repeat split; congruence.
Qed.

(** ** what a valid selection means for the user *)

(** the UCB1 rank of emitter i at reselection time, from the scheduler's own counters *)
Definition never_selected (s : bandit) (i : nat) : Prop := nth i (selection s) 0 = 0.

Theorem selection_order (s : bandit) rin scores chosen :
  Shape s -> existsb (fun b => b) (fst (fst (ask_pre s rin))) = true ->
  let kept := snd (fst (ask_pre s rin)) in
  let act' := new_active s rin scores chosen in
  forall i j, i < pool s -> j < pool s ->
    nth i act' false = true -> nth i kept false = false ->      (* i is newly activated *)
    nth j act' false = false ->                                  (* j is left inactive *)
    (never_selected s j -> never_selected s i) /\
    (forall qi qj, ~ never_selected s i -> ~ never_selected s j ->
       scores i = Some qi -> scores j = Some qj -> (qj <= qi)%Q).
Proof.
  intros Hs Hany kept act' i j Hi Hj Hai Hki Haj.
  pose proof Hs as [Hsu [Hse _]].
  destruct (@new_active_spec s rin scores chosen Hs) as [_ [_ [_ [Hv _]]]].
  specialize (Hv Hany). fold kept act' in Hv.
  apply valid_selection_spec in Hv. destruct Hv as [_ [_ [_ Hord]]].
  destruct (ask_pre_spec rin Hs) as [_ [Hlk _]]. fold kept in Hlk.
  specialize (Hord i j ltac:(lia) ltac:(lia) Hai Hki Haj).
  rewrite !ucb_keys_nth in Hord by lia. unfold never_selected.
  split.
  - intros Hnj. rewrite Hnj in Hord. simpl in Hord.
    destruct (Nat.eqb_spec (nth i (selection s) 0) 0); auto.
    destruct (scores i); discriminate.
  - intros qi qj Hni Hnj Hsi Hsj.
    apply Nat.eqb_neq in Hni, Hnj. rewrite Hni, Hnj, Hsi, Hsj in Hord. simpl in Hord.
    apply negb_false_iff in Hord. now apply Qle_bool_iff.
Qed.

Theorem terminated_keeps (s : bandit) rin scores chosen i :
  Shape s -> reselect s = Terminated -> i < pool s ->
  nth i (active s) false = true ->
  (0 <= rin i)%Z -> (rin i <= nth i (restarts s) 0%Z)%Z ->    (* has a counter, did not restart *)
  nth i (new_active s rin scores chosen) false = true.
Proof.
  intros Hs Hterm Hi Ha H0 Hle.
  pose proof Hs as [_ [_ [Hre _]]].
  destruct (@new_active_spec s rin scores chosen Hs) as [_ [_ [Hkept _]]].
  apply Hkept.
  destruct (ask_pre_spec rin Hs) as [_ [_ [_ [_ [_ [Hk _]]]]]].
  apply Hk; auto.
  unfold resel0_of. rewrite Hterm.
  rewrite map2_nth with (da := 0%Z) (db := 0%Z); rewrite ?map_length, ?seq_length; auto.
  rewrite nth_map_seq by auto.
  apply orb_false_iff. split; [apply Z.ltb_ge; lia|apply Z.ltb_ge; lia].
Qed.

Lemma ntrue_pos_exists l : 1 <= ntrue l -> existsb (fun b => b) l = true.
Proof.
  induction l as [|b t IH]; simpl; [lia|]. destruct b; simpl; [reflexivity|]. intros H. apply IH. lia.
Qed.

Theorem all_fresh (s : bandit) rin scores chosen :
  Shape s -> reselect s = AllActive -> ntrue (active s) = num_active s -> 1 <= num_active s ->
  let kept := snd (fst (ask_pre s rin)) in
  let act' := new_active s rin scores chosen in
  let keys := ucb_keys (selection s) scores in
  (forall i, nth i kept false = false) /\
  (forall i j, i < pool s -> j < pool s -> nth i act' false = true -> nth j act' false = false ->
     better (nth j keys KUndef) (nth i keys KUndef) = false).
Proof.
  intros Hs Hall Hfull Hk1 kept act' keys.
  destruct (ask_pre_spec rin Hs) as [_ [Hlk [_ [_ [_ [_ Hfresh]]]]]]. fold kept in Hlk.
  specialize (Hfresh Hall Hfull). fold kept in Hfresh.
  split; [exact Hfresh|].
  assert (Hany : existsb (fun b => b) (fst (fst (ask_pre s rin))) = true).
  { rewrite ask_pre_unfold. simpl. unfold resel0_of. rewrite Hall, Hfull, Nat.sub_diag.
    assert (Hf : fill 0 (active s) (active s) = (active s, active s)) by (destruct (active s); reflexivity).
    rewrite Hf. simpl. apply ntrue_pos_exists. lia. }
  destruct (@new_active_spec s rin scores chosen Hs) as [_ [_ [_ [Hv _]]]].
  specialize (Hv Hany). fold kept act' keys in Hv.
  apply valid_selection_spec in Hv. destruct Hv as [_ [_ [_ Hord]]].
  intros i j Hi Hj Hai Haj. apply Hord; auto; lia.
Qed.

(** ** protocol of the bandit scheduler *)
Theorem bandit_protocol_step (s : bandit) (o : bop V F) :
  let illegal := match o with
                 | BAsk _ _ _ _ => last_is (last_called (core s)) CAsk
                 | BTell _ => negb (last_is (last_called (core s)) CAsk)
                 | BAskDqd | BTellDqd => true
                 end in
  (illegal = true ->
     bandit_step status_nz s o =
     (s, Err (match o with BAskDqd | BTellDqd => OtherError | _ => RuntimeError end))) /\
  (illegal = false -> snd (bandit_step status_nz s o) <> Err RuntimeError /\
                      snd (bandit_step status_nz s o) <> Err OtherError).
Proof.
  destruct o as [rin scores chosen resp|a| |]; simpl; (split; [|try discriminate]); auto.
  - intros H. now apply bandit_ask_illegal.
  - intros H. rewrite bandit_ask_legal by auto. simpl. split; discriminate.
  - intros H. apply negb_true_iff in H. now apply bandit_tell_illegal.
  - intros H. apply negb_false_iff in H.
    destruct (lens_ok (length (cur (core s))) (ta_data a)) eqn:Hlens.
    2:{ rewrite bandit_tell_badlen by auto. simpl. split; discriminate. }
    rewrite bandit_tell_go by auto. cbv zeta.
    pose proof (add_to_archives_res (mode (core s)) (length (cur (core s))) (ta_data a ++ [Some (cur (core s))])
                  (ta_fb a) (ta_fail a) (arch (core s)) (rarch (core s))) as Hres.
    destruct (add_to_archives (mode (core s)) (length (cur (core s))) (ta_data a ++ [Some (cur (core s))])
                              (ta_fb a) (ta_fail a) (arch (core s)) (rarch (core s))) as [[ar rr] [info|e]];
      simpl in *; [split; discriminate|].
    destruct Hres as [[i Hi]|He]; [discriminate|]. split; congruence.
Qed.

(** ** routing, as in Scheduler: ask then tell hands each active emitter the rows it generated *)
Theorem bandit_roundtrip (s : bandit) rin scores chosen resp a :
  Shape s -> last_is (last_called (core s)) CAsk = false ->
  let act' := new_active s rin scores chosen in
  let idxs := where_true act' in
  let total := length (concat (map resp idxs)) in
  lens_ok total (ta_data a) = true -> ta_fail a = None ->
  let s1 := fst (bandit_ask s rin scores chosen resp) in
  let s2 := fst (bandit_tell status_nz s1 a) in
  snd (bandit_tell status_nz s1 a) = Ok ONone /\
  active s2 = act' /\
  (forall p i, nth_error idxs p = Some i ->
     let off := sum_nat (map (fun j => length (resp j)) (firstn p idxs)) in
     let m := length (resp i) in
     exists t,
       nth i (elog (core s2)) [] = nth i (elog (core s)) [] ++ [Asked false (resp i); Told false t] /\
       last (t_data t) None = Some (resp i) /\
       (forall c col, nth_error (ta_data a) c = Some (Some col) ->
                      nth_error (t_data t) c = Some (Some (firstn m (skipn off col)))) /\
       (forall c, nth_error (ta_data a) c = Some None -> nth_error (t_data t) c = Some None) /\
       t_info t = map (ta_fb a) (seq off m)) /\
  (forall i, nth i act' false = false -> nth i (elog (core s2)) [] = nth i (elog (core s)) []).
Proof.
  intros Hs Hl act' idxs total Hlens Hfail s1 s2.
  pose proof Hs as [Hsu [Hse [Hre [Hnu [Hel [Hk Hact]]]]]].
  destruct (@new_active_spec s rin scores chosen Hs) as [Hlen [Hnt _]]. fold act' in Hlen, Hnt.
  destruct (ask_pre_spec rin Hs) as [_ [_ [Hrs _]]].
  destruct (@bandit_ask_spec s rin scores chosen resp Hs Hl) as [nums [el [E [Hln [Hle [Hhit Hmiss]]]]]].
  fold act' idxs in E, Hhit, Hmiss.
  assert (Es1 : s1 = mkBandit (mkSched (Some CAsk) (concat (map resp idxs)) nums (arch (core s))
                                       (rarch (core s)) (mode (core s)) el)
                              act' (success s) (selection s) (snd (ask_pre s rin)) (num_active s) (reselect s)).
  { unfold s1. now rewrite E. }
  assert (Hs1 : Shape s1).
  { rewrite Es1. unfold Shape, pool. simpl. rewrite Hlen. unfold pool in *. repeat split; auto; lia. }
  assert (Hl1 : last_is (last_called (core s1)) CAsk = true) by (now rewrite Es1).
  assert (Hcur1 : cur (core s1) = concat (map resp idxs)) by (now rewrite Es1).
  assert (Hlens1 : lens_ok (length (cur (core s1))) (ta_data a) = true) by (now rewrite Hcur1).
  destruct (@bandit_tell_spec s1 a Hs1 Hl1 Hlens1 Hfail) as [sel [suc [el2 [Et [_ [_ [_ [Hhit2 Hmiss2]]]]]]]].
  assert (Hact1 : active s1 = act') by (now rewrite Es1).
  assert (Hnums1 : num_emitted (core s1) = nums) by (now rewrite Es1).
  assert (Hel1 : elog (core s1) = el) by (now rewrite Es1).
  split; [now rewrite Et|]. split; [unfold s2; rewrite Et; simpl; exact Hact1|].
  rewrite Hact1, Hnums1, Hel1, Hcur1 in *.
  assert (Hlens_eq : map (fun j => nth j nums 0) idxs = map (fun j => length (resp j)) idxs).
  { apply map_ext_in. intros j Hj. apply where_true_In in Hj. now apply Hhit. }
  split.
  - intros p i Hp off m.
    assert (Hin : In i idxs) by (eapply nth_error_In; eauto).
    assert (Hai : nth i act' false = true) by (now apply where_true_In).
    destruct (Hhit i Hai) as [Hni Heli].
    destruct (Hhit2 p i Hp) as [Hel2 _]. fold idxs in Hel2. rewrite Hlens_eq in Hel2.
    assert (Hoff : sum_nat (firstn p (map (fun j => length (resp j)) idxs)) = off).
    { now rewrite firstn_map. }
    rewrite Hoff, Hni in Hel2. fold m in Hel2.
    eexists. split; [|split; [|split; [|split]]].
    + unfold s2. rewrite Et. simpl. rewrite Hel2, Heli, <- app_assoc. reflexivity.
    + simpl. rewrite map_app. simpl. rewrite last_last. f_equal.
      pose proof (@concat_part V (map resp idxs) p) as Hc.
      rewrite map_length in Hc.
      assert (Hpl : p < length idxs) by (apply nth_error_Some; congruence).
      specialize (Hc Hpl).
      assert (Hnth : nth p (map resp idxs) [] = resp i).
      { apply nth_error_nth. exact (map_nth_error resp p _ Hp). }
      rewrite Hnth in Hc. rewrite map_map in Hc. rewrite Hoff in Hc. exact Hc.
    + intros c col Hc. simpl. rewrite map_app. rewrite nth_error_app1.
      2:{ rewrite map_length. apply nth_error_Some. congruence. }
      now rewrite nth_error_map, Hc.
    + intros c Hc. simpl. rewrite map_app. rewrite nth_error_app1.
      2:{ rewrite map_length. apply nth_error_Some. congruence. }
      now rewrite nth_error_map, Hc.
    + simpl. rewrite <- slice_firstn_skipn. apply slice_map_seq.
      rewrite length_concat, map_map.
      assert (Hpl : p < length idxs) by (apply nth_error_Some; congruence).
      pose proof (sum_nat_firstn_nth_le (map (fun j => length (resp j)) idxs)) as Hle2.
      specialize (Hle2 p ltac:(now rewrite map_length)). rewrite Hoff in Hle2.
      assert (Hnp : nth p (map (fun j => length (resp j)) idxs) 0 = m).
      { apply nth_error_nth. exact (map_nth_error (fun j => length (resp j)) p _ Hp). }
      lia.
  - intros i Hi. unfold s2. rewrite Et. simpl.
    destruct (Hmiss2 i Hi) as [-> _]. now destruct (Hmiss i Hi) as [_ ->].
Qed.

End BanditProofs.
