(** C07, ProximityArchive part: index_of is "a stored entry at minimum distance" (C03); over any distance
    function with [d x x == 0 <= d x y], the entry found for a stored entry's own measures is at distance 0
    from it, i.e. it is that entry or one the metric cannot tell from it (identical measures for a metric). *)
From Coq Require Import List Arith QArith Lia Lqa.
From PV Require Import Base.QUtil.
Import ListNotations.
Set Implicit Arguments.

Section Nearest.
Variable M : Type.
Variable d : M -> M -> Q.
Hypothesis d_refl : forall x, d x x == 0.
Hypothesis d_nonneg : forall x y, 0 <= d x y.

(** index of a minimum of a non-empty list of distances, first one on ties (any tie-break satisfies the
    theorem below, which only uses minimality) *)
Fixpoint argmin_from (best : nat) (bv : Q) (k : nat) (l : list Q) : nat :=
  match l with
  | [] => best
  | x :: t => if Qltb x bv then argmin_from k x (S k) t else argmin_from best bv (S k) t
  end.

Definition argmin (l : list Q) : nat :=
  match l with [] => 0%nat | x :: t => argmin_from 0 x 1 t end.

Definition is_min (l : list Q) (j : nat) : Prop :=
  (j < length l)%nat /\ forall k, (k < length l)%nat -> nth j l 0 <= nth k l 0.

Lemma argmin_from_spec l : forall best bv k (pre : list Q),
  length pre = k -> (best < k)%nat -> nth best pre 0 == bv -> (forall i, (i < k)%nat -> bv <= nth i pre 0) ->
  is_min (pre ++ l) (argmin_from best bv k l).
Proof.
  induction l as [|x t IH]; intros best bv k pre Hk Hb Hbv Hmin; simpl.
  - rewrite app_nil_r. split; [lia|]. intros i Hi. rewrite Hbv. apply Hmin. lia.
  - replace (pre ++ x :: t) with ((pre ++ [x]) ++ t) by (rewrite <- app_assoc; reflexivity).
    destruct (Qltb x bv) eqn:E.
    + apply Qltb_lt in E. apply IH.
      * rewrite app_length; simpl; lia.
      * lia.
      * rewrite app_nth2 by lia. rewrite Hk, Nat.sub_diag. reflexivity.
      * intros i Hi. destruct (Nat.eq_dec i k) as [->|Hne].
        -- rewrite app_nth2 by lia. rewrite Hk, Nat.sub_diag. simpl. lra.
        -- rewrite app_nth1 by lia. specialize (Hmin i). assert (bv <= nth i pre 0) by (apply Hmin; lia). lra.
    + apply Qltb_ge in E. apply IH.
      * rewrite app_length; simpl; lia.
      * lia.
      * rewrite app_nth1 by lia. exact Hbv.
      * intros i Hi. destruct (Nat.eq_dec i k) as [->|Hne].
        -- rewrite app_nth2 by lia. rewrite Hk, Nat.sub_diag. simpl. exact E.
        -- rewrite app_nth1 by lia. apply Hmin. lia.
Qed.

Lemma argmin_is_min l : l <> [] -> is_min l (argmin l).
Proof.
  destruct l as [|x t]; [congruence|]. intros _. unfold argmin.
  apply (@argmin_from_spec t 0%nat x 1%nat [x]); simpl; auto; try lia; try reflexivity.
  intros i Hi. assert (i = 0)%nat by lia. subst. simpl. lra.
Qed.

(** ANY minimiser j of the distances from a stored entry's measures is at distance 0 from it *)
Theorem nearest_of_stored_is_equivalent (entries : list M) (dflt : M) (i j : nat) :
  (i < length entries)%nat ->
  is_min (map (d (nth i entries dflt)) entries) j ->
  d (nth i entries dflt) (nth j entries dflt) == 0.
Proof.
  intros Hi [Hj Hmin]. rewrite map_length in Hj.
  specialize (Hmin i). rewrite map_length in Hmin. specialize (Hmin Hi).
  rewrite (nth_indep _ 0 (d (nth i entries dflt) dflt)) in Hmin by (rewrite map_length; auto).
  rewrite (nth_indep _ 0 (d (nth i entries dflt) dflt)) in Hmin by (rewrite map_length; auto).
  rewrite !map_nth in Hmin.
  pose proof (d_refl (nth i entries dflt)) as H0.
  pose proof (d_nonneg (nth i entries dflt) (nth j entries dflt)) as H1.
  lra.
Qed.

Corollary first_nearest_of_stored (entries : list M) (dflt : M) (i : nat) :
  (i < length entries)%nat ->
  d (nth i entries dflt) (nth (argmin (map (d (nth i entries dflt)) entries)) entries dflt) == 0.
Proof.
  intros Hi. apply nearest_of_stored_is_equivalent; auto.
  apply argmin_is_min. destruct entries; [simpl in Hi; lia|discriminate].
Qed.

End Nearest.
