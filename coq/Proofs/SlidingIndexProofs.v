(** Lemmas about Model/SlidingIndex.v. *)
From Coq Require Import List Arith ZArith QArith Qminmax Bool Lia Lqa.
From PV Require Import Base.MixedRadix Model.Grid Model.SlidingIndex.
Import ListNotations.
Open Scope Q_scope.

Lemma searchsorted_left_spec (a : list Q) (x : Q) :
  (searchsorted_left a x <= length a)%nat /\
  (forall k, (k < searchsorted_left a x)%nat -> nth k a 0 < x) /\
  ((searchsorted_left a x < length a)%nat -> x <= nth (searchsorted_left a x) a 0).
Proof.
  induction a as [|y t [I1 [I2 I3]]]; simpl.
  - split; [lia|]. split; intros; lia.
  - destruct (Qle_bool x y) eqn:C.
    + apply Qle_bool_iff in C. split; [lia|]. split; [intros k Hk; lia|]. intros _. exact C.
    + assert (C' : y < x).
      { apply Qnot_le_lt. intros A. apply Qle_bool_iff in A. congruence. }
      split; [lia|]. split.
      * intros [|k] Hk; [exact C'|]. apply I2. lia.
      * intros Hn. apply I3. lia.
Qed.

Lemma searchsorted_left_mono (a : list Q) (x1 x2 : Q) : x1 <= x2 ->
  (searchsorted_left a x1 <= searchsorted_left a x2)%nat.
Proof.
  intros H. induction a as [|y t IH]; simpl; [lia|].
  destruct (Qle_bool x1 y) eqn:C1; [lia|].
  destruct (Qle_bool x2 y) eqn:C2; [|lia].
  apply Qle_bool_iff in C2. assert (A : x1 <= y) by lra. apply Qle_bool_iff in A. congruence.
Qed.

Lemma sortedQ_nth (a : list Q) : sortedQ a -> forall i j, (i <= j)%nat -> (j < length a)%nat -> nth i a 0 <= nth j a 0.
Proof.
  induction a as [|x t IH]; intros Hs i j Hij Hj; simpl in Hj; [lia|].
  destruct Hs as [Hx Ht].
  destruct i as [|i]; destruct j as [|j]; simpl; try lra; try lia.
  - (* x <= nth j t *)
    destruct t as [|y t']; [simpl in Hj; lia|].
    apply Qle_trans with y; [exact Hx|].
    change y with (nth 0 (y :: t') 0). apply IH; [exact Ht|lia|simpl in *; lia].
  - apply IH; [exact Ht|lia|lia].
Qed.

Lemma nth_firstn_lt {A} (d : nat) (l : list A) (k : nat) (x : A) : (k < d)%nat -> nth k (firstn d l) x = nth k l x.
Proof.
  revert l k. induction d as [|d IH]; intros l k H; [lia|].
  destruct l as [|y t]; [destruct k; reflexivity|].
  destruct k as [|k]; simpl; [reflexivity|]. apply IH. lia.
Qed.

Lemma clipQ_mono (lo hi x y : Q) : x <= y -> clipQ lo hi x <= clipQ lo hi y.
Proof.
  intros H. unfold clipQ. apply Q.min_le_compat_r. apply Q.max_le_compat_r. exact H.
Qed.

Lemma clipQ_bounds (lo hi x : Q) : lo <= hi -> lo <= clipQ lo hi x /\ clipQ lo hi x <= hi.
Proof.
  intros H. unfold clipQ. split.
  - apply Q.min_glb; [apply Q.le_max_r|exact H].
  - apply Q.le_min_r.
Qed.

Section OneDim.
Variables (d : nat) (b : list Q) (lo hi_e : Q).

Lemma sb_idx1_range (x : Q) : (1 <= d)%nat -> (sb_idx1_x d b lo hi_e x < d)%nat.
Proof.
  intros Hd. unfold sb_idx1_x.
  destruct (searchsorted_left_spec (firstn d b) (clipQ lo hi_e x)) as [I1 _].
  pose proof (firstn_le_length d b). lia.
Qed.

Lemma sb_idx1_mono (x1 x2 : Q) : x1 <= x2 -> (sb_idx1_x d b lo hi_e x1 <= sb_idx1_x d b lo hi_e x2)%nat.
Proof.
  intros H. unfold sb_idx1_x.
  pose proof (searchsorted_left_mono (firstn d b) _ _ (clipQ_mono lo hi_e _ _ H)). lia.
Qed.

(** the returned cell j is delimited by the current boundaries:  b_j < x <= b_{j+1}
    (no lower constraint in the first cell, no upper constraint from the search in the last) *)
Lemma sb_idx1_spec (x : Q) : (1 <= d)%nat -> (d <= length b)%nat -> sortedQ (firstn d b) ->
  let xc := clipQ lo hi_e x in
  let j := sb_idx1_x d b lo hi_e x in
  (j = O \/ nth j b 0 < xc) /\ (j = (d - 1)%nat \/ xc <= nth (j + 1) b 0).
Proof.
  intros Hd Hl Hs xc j. unfold j, sb_idx1_x. fold xc.
  destruct (searchsorted_left_spec (firstn d b) xc) as [I1 [I2 I3]].
  assert (La : length (firstn d b) = d) by (apply firstn_length_le; exact Hl).
  rewrite La in *.
  set (n := searchsorted_left (firstn d b) xc) in *.
  split.
  - destruct (le_lt_dec n 1) as [Hn|Hn]; [left; lia|]. right.
    replace (Nat.max 0 (n - 1)) with (n - 1)%nat by lia.
    rewrite <- (nth_firstn_lt d b (n - 1) 0) by lia. apply I2. lia.
  - destruct (Nat.eq_dec n d) as [E|E]; [left; lia|].
    destruct (Nat.eq_dec d 1) as [E1|E1]; [left; lia|]. right.
    destruct (Nat.eq_dec n 0) as [E0|E0].
    + replace (Nat.max 0 (n - 1) + 1)%nat with 1%nat by lia.
      rewrite <- (nth_firstn_lt d b 1 0) by lia.
      apply Qle_trans with (nth 0 (firstn d b) 0).
      * rewrite E0 in I3. apply I3. lia.
      * apply sortedQ_nth; [exact Hs|lia|lia].
    + replace (Nat.max 0 (n - 1) + 1)%nat with n by lia.
      rewrite <- (nth_firstn_lt d b n 0) by lia. apply I3. lia.
Qed.

(** with the bounds the archive keeps (lower = b_0, upper - eps <= b_d): the clipped coordinate lies in
    [b_0, b_d] and in the returned cell *)
Lemma sb_idx1_cell (x : Q) : (1 <= d)%nat -> (d < length b)%nat -> sortedQ (firstn d b) ->
  lo == nth 0 b 0 -> lo <= hi_e -> hi_e <= nth d b 0 ->
  let xc := clipQ lo hi_e x in
  let j := sb_idx1_x d b lo hi_e x in
  nth j b 0 <= xc /\ (j = O \/ nth j b 0 < xc) /\ xc <= nth (j + 1) b 0.
Proof.
  intros Hd Hl Hs Hlo Hle Hhi xc j.
  destruct (sb_idx1_spec x Hd ltac:(lia) Hs) as [S1 S2]. fold xc j in S1, S2.
  destruct (clipQ_bounds lo hi_e x Hle) as [B1 B2]. fold xc in B1, B2.
  split; [|split; [exact S1|]].
  - destruct S1 as [E|L]; [rewrite E; lra|lra].
  - destruct S2 as [E|L]; [|exact L]. rewrite E. replace (d - 1 + 1)%nat with d by lia. lra.
Qed.
End OneDim.

(** * all dimensions *)
Definition valid_scfg (cfg : list sdim) : Prop := Forall (fun c => (1 <= sd c)%nat) cfg.

Lemma sb_cells_in_grid (cfg : list sdim) : valid_scfg cfg -> forall x, length x = length cfg ->
  in_gridZ (sb_dims cfg) (map Z.of_nat (sb_cells cfg x)).
Proof.
  induction 1 as [|c ct Hc Ht IH]; intros [|v xt] Hl; simpl in *; try discriminate; constructor.
  - pose proof (sb_idx1_range (sd c) (sbnd c) (slo c) (shi_e c) v Hc). lia.
  - apply IH. lia.
Qed.

Lemma sb_index_range (cfg : list sdim) (x : list Q) : valid_scfg cfg -> length x = length cfg ->
  (0 <= sb_index_of_one cfg x < prodZ (sb_dims cfg))%Z.
Proof. intros Hv Hl. apply ravelZ_range, sb_cells_in_grid; assumption. Qed.

Lemma sb_unravel_index (cfg : list sdim) (x : list Q) : valid_scfg cfg -> length x = length cfg ->
  unravelZ (sb_dims cfg) (sb_index_of_one cfg x) = map Z.of_nat (sb_cells cfg x).
Proof. intros Hv Hl. apply unravelZ_ravelZ, sb_cells_in_grid; assumption. Qed.
