(** Model of ribs/archives/_cvt_archive.py : CVTArchive.index_of (brute force, optionally chunked),
    over exact rationals.  Also the specification the k-D tree paths (CVTArchive with
    use_kd_tree=True, ProximityArchive.index_of) are checked against by the harness: the returned
    index must be in range and a minimiser of the exact squared distance.

    Python (brute force):
        distances = np.sum(np.square(expand_dims(measures,1) - centroids), axis=2)
        return np.argmin(distances, axis=1)
    chunked: chunks = np.array_split(measures, ceil(len / chunk_size)); the same per chunk; concatenate.

    Definitions only; proofs are in Proofs/CVTProofs.v. *)
From Coq Require Import List Arith QArith Bool.
Import ListNotations.

Fixpoint dist2 (a b : list Q) : Q :=
  match a, b with
  | x :: at_, y :: bt => (x - y) * (x - y) + dist2 at_ bt
  | _, _ => 0
  end.

(** np.argmin: index of the FIRST minimum, together with the minimum *)
Fixpoint argmin_pair (l : list Q) : option (nat * Q) :=
  match l with
  | [] => None
  | x :: t =>
      match argmin_pair t with
      | None => Some (O, x)
      | Some (r, v) => if Qle_bool x v then Some (O, x) else Some (S r, v)
      end
  end.

Definition argmin_first (l : list Q) : nat :=
  match argmin_pair l with Some (r, _) => r | None => O end.

Definition cvt_index_one (cs : list (list Q)) (m : list Q) : nat :=
  argmin_first (map (dist2 m) cs).

Definition cvt_index_of (cs : list (list Q)) (ms : list (list Q)) : list nat :=
  map (cvt_index_one cs) ms.

(** np.array_split(l, n): n sections, the first [len mod n] of size [len/n + 1], the others [len/n] *)
Fixpoint split_sizes {A} (l : list A) (sizes : list nat) : list (list A) :=
  match sizes with
  | [] => []
  | s :: t => firstn s l :: split_sizes (skipn s l) t
  end.

Definition array_split {A} (l : list A) (n : nat) : list (list A) :=
  let len := length l in
  split_sizes l (repeat (S (len / n)) (len mod n) ++ repeat (len / n) (n - len mod n))%nat.

Definition ceil_div (a b : nat) : nat := ((a + b - 1) / b)%nat.

(** chunk_size = None | Some k (k >= 1) *)
Definition cvt_index_of_chunked (cs : list (list Q)) (chunk : option nat) (ms : list (list Q)) : list nat :=
  match chunk with
  | Some k =>
      if (k <? length ms)%nat
      then concat (map (cvt_index_of cs) (array_split ms (ceil_div (length ms) k)))
      else cvt_index_of cs ms
  | None => cvt_index_of cs ms
  end.

(** what "index i is a correct answer for m" means (the check applied to k-D tree answers) *)
Definition is_nearest (cs : list (list Q)) (m : list Q) (i : nat) : Prop :=
  (i < length cs)%nat /\ forall j, (j < length cs)%nat -> dist2 m (nth i cs []) <= dist2 m (nth j cs []).
