(** Statement-level facts about grid_archive_heatmap's data handling that Model/Viz.v renders ([grid_heatmap], [grid2d_colors],
    [grid1d_cells]); harness/py2v_gridviz.py records which of them the CURRENT source exhibits. *)
From Coq Require Import List.
Import ListNotations.

Inductive gridviz_fact :=
  | DataFromArchiveOrValidatedFrame   (* archive.data("index"/"objective") | validate_df(df)["index"/"objective"]   -> the [listing] argument *)
  | OneDimCellsFilledByGridIndex      (* np.full(cells, nan)[int_to_grid_index(index)[:, 0]] = objective             -> grid1d_cells *)
  | TwoDimMatrixRowIsYColumnIsX       (* colors[(y_dim, x_dim)][g[:, 1], g[:, 0]] = objective                         -> grid2d_colors *)
  | TransposeSwapsBoundsAndMatrix     (* swap x/y boundaries, flip lower/upper bounds, colors.T                      -> grid_heatmap, o_transpose *)
  | DefaultLimitsAreMinMaxOfPlotted   (* vmin = np.min(objective_batch) if vmin is None else vmin (same for vmax)    -> limits_strict *)
  | MeshGetsBoundsMatrixLimits.       (* pcolormesh(x_bounds, y_bounds, colors, vmin=vmin, vmax=vmax)                 -> mkHeat *)

Definition model_gridviz_facts : list gridviz_fact :=
  [DataFromArchiveOrValidatedFrame; OneDimCellsFilledByGridIndex; TwoDimMatrixRowIsYColumnIsX; TransposeSwapsBoundsAndMatrix;
   DefaultLimitsAreMinMaxOfPlotted; MeshGetsBoundsMatrixLimits].
