(** Executable runner for the emitter model (C08).  One call = one model computation:
      (0 bounds dim)                         process_bounds
      (1 kind cfg elites ...)                run_ask (the clipping ask paths)
      (2 fuel lo hi batch stream)            es_ask (resample-until-in-bounds loop)
      (3 theta jac coeffs)                   gae_ask
      (4 fixed kind sd md jd)                out_dtype
    Random draws arrive as finite lists and are turned into the draw functions of the model
    (out-of-range reads give 0; the harness always ships the full arrays). *)
From Coq Require Import List ZArith QArith Bool Arith.
From PV Require Import Base.ListUtil Model.Store Model.Sx Model.Emit.
Import ListNotations.
Open Scope Z_scope.

Definition err_code8 (e : err) : Z :=
  match e with ValueError => 1 | IndexError => 2 | RuntimeError => 3 | KeyError => 4
             | TypeError => 5 | StopIteration => 6 | OtherError => 7 end.

Definition drow : sx -> option row := dlist dq.
Definition dmatrix : sx -> option matrix := dlist drow.
Definition dbound : sx -> option ebound := dopt dq.
Definition dbentry : sx -> option bentry := dopt (dlist (dopt dq)).

Definition erow (r : row) : sx := elist eq_ r.
Definition ematrix (m : matrix) : sx := elist erow m.
Definition ebounds (l : list ebound) : sx := elist (eopt eq_) l.

Definition fn1 (l : list Q) : nat -> Q := fun i => nth i l 0%Q.
Definition fn2 (m : matrix) : nat -> nat -> Q := fun i j => nth j (nth i m []) 0%Q.
Definition fnn (l : list nat) : nat -> nat := fun i => nth i l O.

Definition dcfg (s : sx) : option ecfg :=
  match s with
  | SL [b; d; x0; ini; lo; hi] =>
      match dnat b, dnat d, drow x0, dopt dmatrix ini, dlist dbound lo, dlist dbound hi with
      | Some b', Some d', Some x, Some i, Some l, Some h => Some (mkCfg b' d' x i l h)
      | _, _, _, _, _, _ => None
      end
  | _ => None
  end.

Definition des (s : sx) : option es_kind :=
  match s with
  | SZ 0 => Some CmaEs | SZ 1 => Some SepCmaEs | SZ 2 => Some LmMaEs | SZ 3 => Some OpenAiEs
  | SZ 4 => Some PyCmaEs | _ => None
  end.
Definition dop (s : sx) : option operator :=
  match s with SZ 0 => Some OpGaussian | SZ 1 => Some OpIsoLine | _ => None end.
Definition ddt (s : sx) : option dt :=
  match s with SZ 0 => Some F32 | SZ 1 => Some F64 | _ => None end.
Definition edt (d : dt) : sx := SZ (match d with F32 => 0 | F64 => 1 end).

Definition dakind (s : sx) : option akind :=
  match s with
  | SL [SZ 0; i] => match dbool i with Some i' => Some (KGaussian i') | None => None end
  | SL [SZ 1; i] => match dbool i with Some i' => Some (KIsoLine i') | None => None end
  | SL [SZ 2; o; i] => match dop o, dbool i with Some o', Some i' => Some (KGA o' i') | _, _ => None end
  | SL [SZ 3; e] => match des e with Some e' => Some (KES e') | None => None end
  | SL [SZ 4; l; i] => match dbool l, dbool i with Some l', Some i' => Some (KGoDqd l' i') | _, _ => None end
  | SL [SZ 5; m; i] => match dbool m, dbool i with Some m', Some i' => Some (KGoAsk m' i') | _, _ => None end
  | SL [SZ 6] => Some KGaeDqd
  | SL [SZ 7; e] => match des e with Some e' => Some (KGaeAsk e') | None => None end
  | _ => None
  end.

Definition dcall (s : sx) : option ask_call :=
  match s with
  | SL [SZ 0; c; e; ints; z] =>
      match dcfg c, dmatrix e, dlist dnat ints, dmatrix z with
      | Some c', Some e', Some i', Some z' => Some (AGaussian c' e' (fnn i') (fn2 z'))
      | _, _, _, _ => None
      end
  | SL [SZ 1; c; e; ints; iso; line] =>
      match dcfg c, dmatrix e, dlist dnat ints, dmatrix iso, drow line with
      | Some c', Some e', Some i', Some z', Some l' => Some (AIsoLine c' e' (fnn i') (fn2 z') (fn1 l'))
      | _, _, _, _, _ => None
      end
  | SL [SZ 2; c; o; e; ints; z; line] =>
      match dcfg c, dop o, dmatrix e, dlist dnat ints, dmatrix z, drow line with
      | Some c', Some o', Some e', Some i', Some z', Some l' =>
          Some (AGA c' o' e' (fnn i') (fn2 z') (fn1 l'))
      | _, _, _, _, _, _ => None
      end
  | SL [SZ 3; c; l; e; ints; z; line] =>
      match dcfg c, dbool l, dmatrix e, dlist dnat ints, dmatrix z, drow line with
      | Some c', Some b', Some e', Some i', Some z', Some l' =>
          Some (AGoDqd c' b' e' (fnn i') (fn2 z') (fn1 l'))
      | _, _, _, _, _, _ => None
      end
  | SL [SZ 4; c; mg; e; ps; jac; sg; m1; z] =>
      match dcfg c, dbool mg, dmatrix e, dmatrix ps, dopt (dlist dmatrix) jac, dq sg, dnat m1, dmatrix z with
      | Some c', Some g', Some e', Some p', Some j', Some s', Some m', Some z' =>
          Some (AGoAsk c' g' e' p' j' s' m' (fn2 z'))
      | _, _, _, _, _, _, _, _ => None
      end
  | _ => None
  end.

Definition run_C08 (inp : sx) : sx :=
  match inp with
  | SL [SZ 0; b; d] =>
      match dopt (dlist dbentry) b, dnat d with
      | Some b', Some d' =>
          match process_bounds b' d' with
          | Ok (lo, hi) => SL [SZ 0; ebounds lo; ebounds hi]
          | Err e => SL [SZ (err_code8 e)]
          end
      | _, _ => sx_fail
      end
  | SL [SZ 1; call] =>
      match dcall call with
      | Some a => match run_ask a with
                  | Ok m => SL [SZ 0; ematrix m]
                  | Err e => SL [SZ (err_code8 e)]
                  end
      | None => sx_fail
      end
  | SL [SZ 2; fuel; lo; hi; b; stream] =>
      match dnat fuel, dlist dbound lo, dlist dbound hi, dnat b, dmatrix stream with
      | Some f, Some l, Some h, Some b', Some s =>
          match es_ask f l h b' s with
          | RsDone rows picks used => SL [SZ 0; ematrix rows; elist enat picks; enat used]
          | RsNeed k => SL [SZ 1; enat k]
          | RsFuel => SL [SZ 2]
          end
      | _, _, _, _, _ => sx_fail
      end
  | SL [SZ 3; theta; jac; coeffs] =>
      match drow theta, dmatrix jac, dmatrix coeffs with
      | Some t, Some j, Some c => ematrix (gae_ask t j c)
      | _, _, _ => sx_fail
      end
  | SL [SZ 4; fixed; k; sd; md; jd] =>
      match dbool fixed, dakind k, ddt sd, ddt md, ddt jd with
      | Some f, Some k', Some s, Some m, Some j => edt (out_dtype f k' s m j)
      | _, _, _, _, _ => sx_fail
      end
  | _ => sx_fail
  end.
