(** Executable runner for the ranker model.
    input  : (kind stream ops)      kind 0..7 = Imp TwoImp RD TwoRD Obj TwoObj Nov Density; stream = list of Q
    ops    : (0 lower upper)                                   reset(archive)       -> (0 dir?) | (err)
             (1 dir)                                           target_measure_dir = -> (0)
             (2 lower upper dens? objective measures status value novelty)  rank    -> (0 idx vals) | (err)
             (3 vals idx)            Spec.rank_ok clauses on SUPPLIED (implementation) outputs -> (perm sorted)
             (4)                     state                                          -> (dir? #remaining draws)
    vals   : (1 (q ...)) | (2 ((s q) ...));  dens? = () | ((q ...)) : table returned by archive.compute_density *)
From Coq Require Import List ZArith QArith Bool.
From PV Require Import Model.Store Model.Sx Model.Ranker Spec.RankerSpec.
Import ListNotations.
Open Scope Z_scope.

Definition c17_err_code (e : err) : Z :=
  match e with ValueError => 1 | IndexError => 2 | RuntimeError => 3 | KeyError => 4
             | TypeError => 5 | StopIteration => 6 | OtherError => 7 end.

Definition c17_dkind (s : sx) : option kind :=
  match s with
  | SZ 0 => Some Imp | SZ 1 => Some TwoImp | SZ 2 => Some RD | SZ 3 => Some TwoRD
  | SZ 4 => Some Obj | SZ 5 => Some TwoObj | SZ 6 => Some Nov | SZ 7 => Some Density
  | _ => None
  end.

Definition c17_dpair (s : sx) : option (Q * Q) :=
  match s with
  | SL [a; b] => match dq a, dq b with Some x, Some y => Some (x, y) | _, _ => None end
  | _ => None
  end.

Definition c17_dvalues (s : sx) : option values :=
  match s with
  | SL [SZ 1; l] => match dlist dq l with Some v => Some (V1 v) | None => None end
  | SL [SZ 2; l] => match dlist c17_dpair l with Some v => Some (V2 v) | None => None end
  | _ => None
  end.

Definition c17_evalues (v : values) : sx :=
  match v with
  | V1 l => SL [SZ 1; elist eq_ l]
  | V2 l => SL [SZ 2; elist (fun p => SL [eq_ (fst p); eq_ (snd p)]) l]
  end.

Definition c17_edir (r : ranker) : sx := eopt (elist eq_) (r_dir r).

Definition c17_darchive (lo up dens : sx) : option archive :=
  match dlist dq lo, dlist dq up, dopt (dlist dq) dens with
  | Some l, Some u, Some t => Some (mkArchive l u (match t with Some tab => Some (fun _ => tab) | None => None end))
  | _, _, _ => None
  end.

Definition c17_op (r : ranker) (o : sx) : ranker * sx :=
  match o with
  | SL [SZ 0; lo; up] =>
      match c17_darchive lo up (SL []) with
      | Some a => match reset r a with
                  | Ok r' => (r', SL [SZ 0; c17_edir r'])
                  | Err e => (r, SL [SZ (c17_err_code e)])
                  end
      | None => (r, sx_fail)
      end
  | SL [SZ 1; d] =>
      match dlist dq d with Some dir => (set_dir r dir, SL [SZ 0]) | None => (r, sx_fail) end
  | SL [SZ 2; lo; up; dens; obj; meas; st; val; nov] =>
      match c17_darchive lo up dens, dlist dq obj, dlist (dlist dq) meas, dlist dz st, dlist dq val, dlist dq nov with
      | Some a, Some ob, Some ms, Some ss, Some vs, Some ns =>
          (r, match rank r a (mkData ob ms) (mkInfo ss vs ns) with
              | Ok (idx, v) => SL [SZ 0; elist enat idx; c17_evalues v]
              | Err e => SL [SZ (c17_err_code e)]
              end)
      | _, _, _, _, _, _ => (r, sx_fail)
      end
  | SL [SZ 3; v; idx] =>
      match c17_dvalues v, dlist dnat idx with
      | Some vv, Some ii => (r, SL [ebool (is_perm_b ii (batch_size vv)); ebool (sorted_b (r_kind r) vv ii)])
      | _, _ => (r, sx_fail)
      end
  | SL [SZ 4] => (r, SL [c17_edir r; enat (length (r_rng r))])
  | _ => (r, sx_fail)
  end.

Fixpoint c17_ops (r : ranker) (ops : list sx) : list sx :=
  match ops with
  | [] => []
  | o :: t => let '(r', out) := c17_op r o in out :: c17_ops r' t
  end.

Definition run_C17 (inp : sx) : sx :=
  match inp with
  | SL [k; st; SL ops] =>
      match c17_dkind k, dlist dq st with
      | Some kk, Some stream => SL (c17_ops (new_ranker kk stream) ops)
      | _, _ => sx_fail
      end
  | _ => sx_fail
  end.
