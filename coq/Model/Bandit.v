(** Model of ribs/schedulers/_bandit_scheduler.py : BanditScheduler (executable definitions only).

    State follows [BanditScheduler.__init__]:
      core       = _last_called, _cur_solutions, _num_emitted, archives, _add_mode and the spy
                   emitters, exactly as in Model/Scheduler.v (the routing is Scheduler's, restricted
                   to the active emitters)
      active     = _active_arr            success   = _success  (integer valued floats)
      selection  = _selection             restarts  = _restarts
      num_active = _num_active            reselect  = _reselect
    [zeta] does not occur: the UCB1 scores of previously selected emitters are an oracle input of
    ask, computed by the harness in float64 with the documented formula
    success/selection + zeta*sqrt(ln(sum success)/selection) and shipped as exact rationals
    ([None] when the formula is undefined: total success 0 makes ln(0) = -inf and the score NaN).
    The model describes the code AFTER fixes/F9.patch (finding F9, DESIGN.md section 6): an undefined
    score ([KUndef]) ranks below [KInf], so never-selected emitters are activated first also while
    nothing has been inserted yet.  Before the patch the NaN scores broke numpy's argsort and
    never-selected emitters could be passed over for ever. *)
From Coq Require Import List Arith Bool Lia ZArith QArith.
From PV Require Import Base.ListUtil Base.SliceUtil Model.Store Model.Scheduler.
Import ListNotations.
Set Implicit Arguments.
Open Scope nat_scope.

Inductive reselect_mode := Terminated | AllActive.

(** ucb1[i]: +inf for an emitter that was never selected, the score otherwise *)
Inductive key := KInf | KFin (q : Q) | KUndef.

(** the total preorder a descending sort of finite/inf floats realises (undefined scores last) *)
Definition key_geb (a b : key) : bool :=
  match a, b with
  | KInf, _ => true
  | _, KInf => false
  | KFin x, KFin y => Qle_bool y x
  | KFin _, KUndef => true
  | KUndef, KFin _ => false
  | KUndef, KUndef => true
  end.

(** [better a b]: an emitter with key [a] must be activated before one with key [b]:
    never-selected before previously selected; among defined scores the strictly larger one.
    Equal scores and undefined scores impose no order. *)
Definition better (a b : key) : bool :=
  match a, b with
  | KInf, KInf => false
  | KInf, _ => true
  | KFin x, KFin y => negb (Qle_bool x y)
  | _, _ => false
  end.

Fixpoint map2 {A B C} (f : A -> B -> C) (la : list A) (lb : list B) : list C :=
  match la, lb with
  | a :: ta, b :: tb => f a b :: map2 f ta tb
  | _, _ => []
  end.

(** ucb1 = np.full(inf); update_ucb = _selection != 0; ucb1[update_ucb] = <score> *)
Definition ucb_keys (selection : list nat) (scores : nat -> option Q) : list key :=
  map (fun i => if Nat.eqb (nth i selection 0) 0 then KInf
                else match scores i with Some q => KFin q | None => KUndef end)
      (seq 0 (length selection)).

(** ** The specification of a reselection, as a decidable relation on its outcome.
    [kept]: the emitters still active after deactivation; [chosen]: the active set after ask.
    Ties may be broken either way, hence a relation and not a function. *)
Definition valid_selection (num_active : nat) (kept : list bool) (keys : list key) (chosen : list bool) : bool :=
  let n := length kept in
  Nat.eqb (length chosen) n &&
  Nat.eqb (ntrue chosen) num_active &&
  forallb (fun i => implb (nth i kept false) (nth i chosen false)) (seq 0 n) &&
  forallb (fun i => forallb (fun j =>
      implb (nth i chosen false && negb (nth i kept false) && negb (nth j chosen false))
            (negb (better (nth j keys KUndef) (nth i keys KUndef)))) (seq 0 n)) (seq 0 n).

(** ** The code's way of producing one: descending argsort, then activate inactive emitters in that
    order until num_active are active.
      activate = np.argsort(ucb1)[::-1]
      cur_active = _active_arr.sum()
      for i in activate:
          if cur_active >= _num_active: break
          if not _active_arr[i]: _active_arr[i] = True; cur_active += 1 *)
Fixpoint insert_desc (keys : list key) (i : nat) (l : list nat) : list nat :=
  match l with
  | [] => [i]
  | j :: t => if key_geb (nth i keys KUndef) (nth j keys KUndef) then i :: l
              else j :: insert_desc keys i t
  end.

Definition argsort_desc (keys : list key) : list nat :=
  fold_right (insert_desc keys) [] (seq 0 (length keys)).

Fixpoint activate_loop (order : list nat) (act : list bool) (cur_active num_active : nat) : list bool :=
  match order with
  | [] => act
  | i :: t =>
      if Nat.leb num_active cur_active then act
      else if nth i act false then activate_loop t act cur_active num_active
      else activate_loop t (upd act i true) (S cur_active) num_active
  end.

Definition select (num_active : nat) (kept : list bool) (keys : list key) : list bool :=
  activate_loop (argsort_desc keys) kept (ntrue kept) num_active.

(** ** first-iteration fill:
      num_needed = _num_active - _active_arr.sum(); i = 0
      while num_needed > 0:
          reselect[i] = False
          if not _active_arr[i]: _active_arr[i] = True; num_needed -= 1
          i += 1
    (running off the end of the pool is an IndexError in Python; it cannot happen when the pool
    has at least num_active emitters, and the model then returns the arrays unchanged) *)
Fixpoint fill (needed : nat) (resel act : list bool) {struct resel} : list bool * list bool :=
  match needed, resel, act with
  | S m, _ :: rt, a :: at_ =>
      let '(rt', at') := fill (if a then S m else m) rt at_ in (false :: rt', true :: at')
  | _, _, _ => (resel, act)
  end.

(** _active_arr[reselect] = False *)
Definition deactivate (act resel : list bool) : list bool :=
  map2 (fun a r => a && negb r) act resel.

Section Bandit.
Variable V : Type.
Variable F : Type.
(** whether a feedback row counts as a success: [add_info["status"][k] != 0] *)
Variable status_nz : F -> bool.

Record bandit := mkBandit {
  core : sched V F;
  active : list bool;
  success : list nat;
  selection : list nat;
  restarts : list Z;
  num_active : nat;
  reselect : reselect_mode
}.

Definition pool (s : bandit) : nat := length (active s).

Definition bandit_init (n_pool k : nat) (rm : reselect_mode) (m : add_mode) (with_result : bool) : bandit :=
  mkBandit (sched_init n_pool m with_result) (repeat false n_pool) (repeat 0 n_pool) (repeat 0 n_pool)
           (repeat 0%Z n_pool) k rm.

(** the head of ask: reselect mask, fill, deactivation.  [rin i] = emitter i's [restarts] attribute,
    or -1 when it has none.  Returns (reselect mask, kept actives, new _restarts). *)
Definition ask_pre (s : bandit) (rin : nat -> Z) : list bool * list bool * list Z :=
  let '(resel0, restarts') :=
    match reselect s with
    | Terminated =>
        let er := map rin (seq 0 (pool s)) in
        (map2 (fun e r => Z.ltb r e || Z.ltb e 0) er (restarts s), er)
    | AllActive => (active s, restarts s)
    end in
  let '(resel, act1) := fill (num_active s - ntrue (active s)) resel0 (active s) in
  (resel, deactivate act1 resel, restarts').

(** BanditScheduler.ask.  [chosen] is the implementation's new active set; it is adopted when it
    satisfies the specification, otherwise the model's own [select] is used (so that every run of
    the model is a run with valid selections). *)
Definition bandit_ask (s : bandit) (rin : nat -> Z) (scores : nat -> option Q) (chosen : list bool)
           (resp : nat -> list V) : bandit * result (out V) :=
  let c := core s in
  if last_is (last_called c) CAsk then (s, Err RuntimeError)
  else
    let '(resel, kept, restarts') := ask_pre s rin in
    let act' :=
      if existsb (fun b => b) resel then
        let keys := ucb_keys (selection s) scores in
        if valid_selection (num_active s) kept keys chosen then chosen
        else select (num_active s) kept keys
      else kept in
    let '(sols, nums, el) := ask_route false (where_true act') resp (num_emitted c) (elog c) in
    (mkBandit (mkSched (Some CAsk) sols nums (arch c) (rarch c) (mode c) el)
              act' (success s) (selection s) restarts' (num_active s) (reselect s),
     Ok (ORows sols)).

(** the emitter loop of BanditScheduler.tell:
      pos = 0
      for i in np.where(_active_arr)[0]:
          n = _num_emitted[i]; end = pos + n
          _selection[i] += n
          _success[i] += np.count_nonzero(add_info["status"][pos:end])
          emitter.tell(...slices pos:end...)
          pos = end *)
Definition count_nz (info : list F) : nat := length (filter status_nz info).

Fixpoint credit (ds : list (nat * told V F)) (nums sel suc : list nat) : list nat * list nat :=
  match ds with
  | [] => (sel, suc)
  | (i, t) :: rest =>
      credit rest nums (upd sel i (nth i sel 0 + nth i nums 0))
             (upd suc i (nth i suc 0 + count_nz (t_info t)))
  end.

Definition bandit_tell (s : bandit) (a : tell_args V F) : bandit * result (out V) :=
  let c := core s in
  if negb (last_is (last_called c) CAsk) then (s, Err RuntimeError)
  else
    let lc := Some CTell in
    let with_core c' := mkBandit c' (active s) (success s) (selection s) (restarts s)
                                 (num_active s) (reselect s) in
    let n := length (cur c) in
    if negb (lens_ok n (ta_data a)) then
      (with_core (mkSched lc (cur c) (num_emitted c) (arch c) (rarch c) (mode c) (elog c)), Err ValueError)
    else
      let data := ta_data a ++ [Some (cur c)] in
      match add_to_archives (mode c) n data (ta_fb a) (ta_fail a) (arch c) (rarch c) with
      | (ar, rr, Err e) =>
          (with_core (mkSched lc (cur c) (num_emitted c) ar rr (mode c) (elog c)), Err e)
      | (ar, rr, Ok info) =>
          let ds := deliveries (where_true (active s)) (num_emitted c) 0 data None info in
          let '(sel, suc) := credit ds (num_emitted c) (selection s) (success s) in
          (mkBandit (mkSched lc (cur c) (num_emitted c) ar rr (mode c)
                             (push_all (elog c) (map (fun d => (fst d, Told false (snd d))) ds)))
                    (active s) suc sel (restarts s) (num_active s) (reselect s),
           Ok ONone)
      end.

Inductive bop :=
| BAsk (rin : nat -> Z) (scores : nat -> option Q) (chosen : list bool) (resp : nat -> list V)
| BTell (a : tell_args V F)
| BAskDqd       (* raise NotImplementedError (a RuntimeError subclass), nothing touched *)
| BTellDqd.

Definition bandit_step (s : bandit) (o : bop) : bandit * result (out V) :=
  match o with
  | BAsk rin scores chosen resp => bandit_ask s rin scores chosen resp
  | BTell a => bandit_tell s a
  | BAskDqd | BTellDqd => (s, Err OtherError)
  end.

Fixpoint bandit_run (s : bandit) (ops : list bop) : bandit * list (result (out V)) :=
  match ops with
  | [] => (s, [])
  | o :: t => let '(s1, r) := bandit_step s o in let '(s2, rs) := bandit_run s1 t in (s2, r :: rs)
  end.

End Bandit.

Arguments BAsk {V F} rin scores chosen resp.
Arguments BTell {V F} a.
Arguments BAskDqd {V F}.
Arguments BTellDqd {V F}.
Arguments bandit_init {V F} n_pool k rm m with_result.
