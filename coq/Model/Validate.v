(** Rejected calls (C11). A malformed call is described by WHERE the code rejects it:
    - [DPre]  : by validate_batch / validate_single / check_* / index_of, i.e. before the store is
                touched (wrong rank, wrong trailing shape, wrong batch length, non-finite objective or
                measures at any batch position, None objective);
    - [DStore]: inside ArrayStore.add, after the update counter was incremented (missing, unknown or
                mis-shaped extra field: new_data keys / array shapes do not match the store's fields).
    Every such rejection surfaces as ValueError. *)
From Coq Require Import List Arith Bool ZArith QArith.
From PV Require Import Base.ListUtil Base.QUtil Base.FirstArgmax Model.Store Model.Archive.
Import ListNotations.
Set Implicit Arguments.

Inductive defect := DPre | DStore.

Section Validate.
Variable P : Type.
Notation archive := (archive P).

Definition bump_arch (a : archive) : archive :=
  mkArch (bump_add (a_store a)) (a_sum a) (a_stats a) (a_best a).

Inductive vop :=
| VAdd (d : option defect) (cs : list (cand P))
| VAddSingle (d : option defect) (x : cand P)
| VRetrieve (bad : bool) (q : list nat)       (* retrieve / retrieve_single / index_of: validation only *)
| VClear.

Inductive vout :=
| OFeedback (st : list Z) (vl : list Q)
| ORows (l : list (bool * option (nat * row P)))
| OUnit
| OErr (e : err).

Definition vstep (c : cfg) (a : archive) (o : vop) : archive * vout :=
  match o with
  | VAdd None cs => let '(a', (st, vl)) := add c a cs in (a', OFeedback st vl)
  | VAddSingle None x => let '(a', (st, vl)) := add_single c a x in (a', OFeedback [st] [vl])
  | VAdd (Some DPre) _ | VAddSingle (Some DPre) _ => (a, OErr ValueError)
  | VAdd (Some DStore) _ | VAddSingle (Some DStore) _ => (bump_arch a, OErr ValueError)
  | VRetrieve true _ => (a, OErr ValueError)
  | VRetrieve false q => (a, ORows (retrieve_cells a q))
  | VClear => (clear c a, OUnit)
  end.

Fixpoint vrun (c : cfg) (a : archive) (h : list vop) : archive * list vout :=
  match h with
  | [] => (a, [])
  | o :: t => let '(a1, out) := vstep c a o in let '(a2, outs) := vrun c a1 t in (a2, out :: outs)
  end.

(** what a user can observe of an archive: everything except the store's update counters *)
Definition nstore (s : store (row P)) : store (row P) := mkStore (cap s) (occ s) (olist s) (rows s) 0 0.
Definition obs (a : archive) : archive := mkArch (nstore (a_store a)) (a_sum a) (a_stats a) (a_best a).

Definition is_err (o : vout) : bool := match o with OErr _ => true | _ => false end.

End Validate.

Arguments OErr {P} e.
Arguments OUnit {P}.
Arguments VClear {P}.
Arguments VRetrieve {P} bad q.
