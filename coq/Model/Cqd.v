(** Model of ArchiveBase.cqd_score (ribs/archives/_archive_base.py), exact rationals.

      norm_objectives = objective_batch / (obj_max - obj_min)
      for itr: distances = norm(measures_batch[:, None] - target_points[itr]) / dist_max
               for penalty in penalties:
                   values = norm_objectives[:, None] - penalty * norm_distances
                   scores[itr] += sum(max(values, axis=0))        # one maximum per target point
      mean = scores.mean()

    The distance [dist m t] (np.linalg.norm with dist_ord) is a parameter: with dist_ord = 1 and dyadic inputs it is exact and the
    harness supplies it; nothing below depends on which norm it is.  The elites are what data() lists (objective, measures). *)
From Coq Require Import List QArith Qminmax.
From PV Require Import Base.QUtil.
Import ListNotations.
Set Implicit Arguments.
Open Scope Q_scope.

Section Cqd.
Variables M T : Type.            (* measures of an elite / a target point *)
Variable dist : M -> T -> Q.

Record cqd_cfg := mkCqd { q_omin : Q; q_omax : Q; q_dmax : Q }.

Definition cqd_value (c : cqd_cfg) (pen : Q) (t : T) (e : Q * M) : Q :=
  fst e / (q_omax c - q_omin c) - pen * (dist (snd e) t / q_dmax c).

(** np.max over a non-empty axis; None for an empty archive (numpy raises ValueError there) *)
Fixpoint qmax_list (l : list Q) : option Q :=
  match l with
  | [] => None
  | x :: t => match qmax_list t with None => Some x | Some m => Some (Qmax x m) end
  end.

Fixpoint opt_sum (l : list (option Q)) : option Q :=
  match l with
  | [] => Some 0
  | None :: _ => None
  | Some x :: t => match opt_sum t with Some s => Some (x + s) | None => None end
  end.

Definition cqd_iter (c : cqd_cfg) (elites : list (Q * M)) (pens : list Q) (targets : list T) : option Q :=
  opt_sum (flat_map (fun pen => map (fun t => qmax_list (map (cqd_value c pen t) elites)) targets) pens).

Definition cqd_scores (c : cqd_cfg) (elites : list (Q * M)) (pens : list Q) (iters : list (list T)) : list (option Q) :=
  map (cqd_iter c elites pens) iters.

Definition cqd_mean (c : cqd_cfg) (elites : list (Q * M)) (pens : list Q) (iters : list (list T)) : option Q :=
  match opt_sum (cqd_scores c elites pens iters) with
  | Some s => Some (s / inject_Z (Z.of_nat (length iters)))
  | None => None
  end.

End Cqd.
