(** C12 -- alias calculus for numpy-style array code (executable definitions only).

    A heap of array BUFFERS with identities; an array VALUE is a reference to a buffer together with the
    attributes numpy's aliasing rules depend on.  Primitive operations have numpy's aliasing semantics:
      asarray            same object unless a conversion is needed (python list, or dtype requested and different)
      basic slicing, x[None], expand_dims, x[i] on >=2-D, .view(), squeeze        -> view (same buffer)
      reshape                                                                      -> view iff contiguous
      fancy indexing, arithmetic, np.copy, np.array, astype, x[i] on 1-D (scalar)  -> fresh buffer
      x op= y, x[idx] = y                                                          -> mutate the buffer (error if read-only)
      readonly(x)                                                                  -> same buffer, flag cleared
      self.f = x / container.append(x)  -> retain;  return x;  passing x to user code (transform / ranker) -> expose

    Two semantics: a CONCRETE one over a heap with contents (contents and content operations arbitrary) and an
    ABSTRACT effect semantics that only tracks buffer identities and the sets mutated / retained (= reachable from
    self at the end) / returned / exposed.  Proofs/AliasProofs.v : alias_sound.

    Each public pyribs entry point is a straight-line program; the caller-side layout class of each argument
    determines the attributes of the argument's initial value. Programs follow the Python line by line (file:line
    cited) and describe the code as property C12 requires it (copies); the five places where the unchanged code
    differs are marked  [C12-required copy; unchanged code: ...]  and have an as-is variant (prog_asis). *)
From Coq Require Import List Arith Bool ZArith.
From PV Require Import Base.ListUtil Model.Store.
Import ListNotations.

(** * Values, layouts *)
Inductive layout := ExactNdarray | ViewOf | NonContiguous | OtherDtype | PyList.

Record aval := mkVal {
  vbuf : nat;       (* the allocation this value lives in (for a view: its base) *)
  vw : bool;        (* flags.writeable of this array object *)
  vcontig : bool;   (* C-contiguous *)
  vnd : bool;       (* is an ndarray (false: python list / other array-like) *)
  vtgt : bool       (* already has the dtype the entry point declares for this argument *)
}.

(** initial value of an argument living in buffer [b].  ViewOf and ExactNdarray differ only in ownership of the
    memory, which no primitive used by pyribs looks at; [b] is the caller's whole allocation in both cases. *)
Definition value_of_layout (b : nat) (l : layout) : aval :=
  match l with
  | ExactNdarray => mkVal b true true true true
  | ViewOf => mkVal b true true true true
  | NonContiguous => mkVal b true false true true
  | OtherDtype => mkVal b true true true false
  | PyList => mkVal b true true false false
  end.

Definition fresh_val (b : nat) : aval := mkVal b true true true true.

(** * Instructions *)
Definition var := nat.

Inductive instr :=
| IAsarray (d s : var) (with_dtype : bool)    (* d = np.asarray(s [, dtype=declared]) *)
| IMove (d s : var)                           (* d = s  (python name / dict entry rebinding: same object) *)
| IView (d s : var) (keeps_contig : bool)     (* basic slicing etc. *)
| IReshape (d s : var)
| ICopy (d s : var)                           (* fresh buffer, same contents *)
| IOp (d : var) (srcs : list var) (op : nat)  (* fresh buffer computed from srcs *)
| IInplace (d : var) (srcs : list var) (op : nat)
| IReadonly (d s : var)
| ISetSelf (f : nat) (s : var)
| IGetSelf (d : var) (f : nat)
| IReturn (s : var)
| IExpose (s : var).

Definition env := list (nat * aval).

Fixpoint lookup (e : env) (x : nat) : option aval :=
  match e with
  | [] => None
  | (y, v) :: t => if Nat.eqb x y then Some v else lookup t x
  end.

Definition bind (e : env) (x : nat) (v : aval) : env := (x, v) :: e.

Definition set_field (e : env) (f : nat) (v : aval) : env :=
  (f, v) :: filter (fun p => negb (Nat.eqb (fst p) f)) e.

Fixpoint lookups (e : env) (xs : list nat) : option (list aval) :=
  match xs with
  | [] => Some []
  | x :: t => match lookup e x, lookups e t with
              | Some v, Some r => Some (v :: r)
              | _, _ => None
              end
  end.

(** * Abstract effect semantics *)
Record astate := mkA {
  a_next : nat;          (* buffers allocated so far *)
  a_env : env;           (* local variables *)
  a_self : env;          (* fields of self and of everything reachable from it *)
  a_mut : list nat;      (* buffers written by an in-place operation *)
  a_ret : list aval;     (* values handed out *)
  a_exp : list aval;     (* values handed to user callbacks *)
  a_halt : bool          (* an exception was raised (read-only destination, unbound name) *)
}.

Definition a_halted (a : astate) : astate :=
  mkA (a_next a) (a_env a) (a_self a) (a_mut a) (a_ret a) (a_exp a) true.
Definition a_bind (a : astate) (d : var) (v : aval) : astate :=
  mkA (a_next a) (bind (a_env a) d v) (a_self a) (a_mut a) (a_ret a) (a_exp a) (a_halt a).
Definition a_alloc (a : astate) (d : var) : astate :=
  mkA (S (a_next a)) (bind (a_env a) d (fresh_val (a_next a))) (a_self a) (a_mut a) (a_ret a) (a_exp a) (a_halt a).

Definition view_of (v : aval) (keeps : bool) : aval :=
  mkVal (vbuf v) (vw v) (vcontig v && keeps) true (vtgt v).
Definition readonly_of (v : aval) : aval := mkVal (vbuf v) false (vcontig v) (vnd v) (vtgt v).
Definition asarray_aliases (v : aval) (with_dtype : bool) : bool := vnd v && (negb with_dtype || vtgt v).

Definition astep (i : instr) (a : astate) : astate :=
  if a_halt a then a else
  match i with
  | IAsarray d s dt =>
      match lookup (a_env a) s with
      | None => a_halted a
      | Some v => if asarray_aliases v dt then a_bind a d v else a_alloc a d
      end
  | IMove d s =>
      match lookup (a_env a) s with None => a_halted a | Some v => a_bind a d v end
  | IView d s k =>
      match lookup (a_env a) s with
      | None => a_halted a
      | Some v => if vnd v then a_bind a d (view_of v k) else a_halted a
      end
  | IReshape d s =>
      match lookup (a_env a) s with
      | None => a_halted a
      | Some v => if vnd v && vcontig v then a_bind a d (view_of v true) else a_alloc a d
      end
  | ICopy d s =>
      match lookup (a_env a) s with None => a_halted a | Some _ => a_alloc a d end
  | IOp d srcs _ =>
      match lookups (a_env a) srcs with None => a_halted a | Some _ => a_alloc a d end
  | IInplace d srcs _ =>
      match lookup (a_env a) d, lookups (a_env a) srcs with
      | Some v, Some _ =>
          if vw v then mkA (a_next a) (a_env a) (a_self a) (vbuf v :: a_mut a) (a_ret a) (a_exp a) (a_halt a)
          else a_halted a
      | _, _ => a_halted a
      end
  | IReadonly d s =>
      match lookup (a_env a) s with None => a_halted a | Some v => a_bind a d (readonly_of v) end
  | ISetSelf f s =>
      match lookup (a_env a) s with
      | None => a_halted a
      | Some v => mkA (a_next a) (a_env a) (set_field (a_self a) f v) (a_mut a) (a_ret a) (a_exp a) (a_halt a)
      end
  | IGetSelf d f =>
      match lookup (a_self a) f with None => a_halted a | Some v => a_bind a d v end
  | IReturn s =>
      match lookup (a_env a) s with
      | None => a_halted a
      | Some v => mkA (a_next a) (a_env a) (a_self a) (a_mut a) (v :: a_ret a) (a_exp a) (a_halt a)
      end
  | IExpose s =>
      match lookup (a_env a) s with
      | None => a_halted a
      | Some v => mkA (a_next a) (a_env a) (a_self a) (a_mut a) (a_ret a) (v :: a_exp a) (a_halt a)
      end
  end.

Definition arun (p : list instr) (a : astate) : astate := fold_left (fun a i => astep i a) p a.

(** * Concrete semantics: the same machine with a heap of contents.
    Contents are integers standing for whole array contents; [f op args] is the (arbitrary) result of the numpy
    operation numbered [op] on the given contents. *)
Record cstate := mkC {
  c_heap : list Z;
  c_env : env;
  c_self : env;
  c_ret : list aval;
  c_exp : list aval;
  c_halt : bool
}.

Definition content (h : list Z) (v : aval) : Z := nth (vbuf v) h 0%Z.

Definition c_halted (s : cstate) : cstate := mkC (c_heap s) (c_env s) (c_self s) (c_ret s) (c_exp s) true.
Definition c_bind (s : cstate) (d : var) (v : aval) : cstate :=
  mkC (c_heap s) (bind (c_env s) d v) (c_self s) (c_ret s) (c_exp s) (c_halt s).
Definition c_alloc (s : cstate) (d : var) (z : Z) : cstate :=
  mkC (c_heap s ++ [z]) (bind (c_env s) d (fresh_val (length (c_heap s)))) (c_self s) (c_ret s) (c_exp s) (c_halt s).

Section Concrete.
Variable f : nat -> list Z -> Z.

Definition cstep (i : instr) (s : cstate) : cstate :=
  if c_halt s then s else
  match i with
  | IAsarray d x dt =>
      match lookup (c_env s) x with
      | None => c_halted s
      | Some v => if asarray_aliases v dt then c_bind s d v else c_alloc s d (content (c_heap s) v)
      end
  | IMove d x =>
      match lookup (c_env s) x with None => c_halted s | Some v => c_bind s d v end
  | IView d x k =>
      match lookup (c_env s) x with
      | None => c_halted s
      | Some v => if vnd v then c_bind s d (view_of v k) else c_halted s
      end
  | IReshape d x =>
      match lookup (c_env s) x with
      | None => c_halted s
      | Some v => if vnd v && vcontig v then c_bind s d (view_of v true) else c_alloc s d (content (c_heap s) v)
      end
  | ICopy d x =>
      match lookup (c_env s) x with None => c_halted s | Some v => c_alloc s d (content (c_heap s) v) end
  | IOp d srcs op =>
      match lookups (c_env s) srcs with
      | None => c_halted s
      | Some vs => c_alloc s d (f op (map (content (c_heap s)) vs))
      end
  | IInplace d srcs op =>
      match lookup (c_env s) d, lookups (c_env s) srcs with
      | Some v, Some vs =>
          if vw v then
            mkC (upd (c_heap s) (vbuf v) (f op (content (c_heap s) v :: map (content (c_heap s)) vs)))
                (c_env s) (c_self s) (c_ret s) (c_exp s) (c_halt s)
          else c_halted s
      | _, _ => c_halted s
      end
  | IReadonly d x =>
      match lookup (c_env s) x with None => c_halted s | Some v => c_bind s d (readonly_of v) end
  | ISetSelf fl x =>
      match lookup (c_env s) x with
      | None => c_halted s
      | Some v => mkC (c_heap s) (c_env s) (set_field (c_self s) fl v) (c_ret s) (c_exp s) (c_halt s)
      end
  | IGetSelf d fl =>
      match lookup (c_self s) fl with None => c_halted s | Some v => c_bind s d v end
  | IReturn x =>
      match lookup (c_env s) x with
      | None => c_halted s
      | Some v => mkC (c_heap s) (c_env s) (c_self s) (v :: c_ret s) (c_exp s) (c_halt s)
      end
  | IExpose x =>
      match lookup (c_env s) x with
      | None => c_halted s
      | Some v => mkC (c_heap s) (c_env s) (c_self s) (c_ret s) (v :: c_exp s) (c_halt s)
      end
  end.

Definition crun (p : list instr) (s : cstate) : cstate := fold_left (fun s i => cstep i s) p s.
End Concrete.

(** what an observer holding [self] can see: the contents of everything reachable from it *)
Definition observe (self : env) (h : list Z) : list (nat * Z) := map (fun p => (fst p, content h (snd p))) self.
(** a write through an array object the user holds *)
Definition write_through (v : aval) (z : Z) (h : list Z) : list Z := if vw v then upd h (vbuf v) z else h.

(** erasure: the abstract state of a concrete one, given the mutation log so far *)
Definition erase (m : list nat) (s : cstate) : astate :=
  mkA (length (c_heap s)) (c_env s) (c_self s) m (c_ret s) (c_exp s) (c_halt s).

(** * Initial states.
    Buffers 0..6 are the store's arrays (fields 0..4: solution objective measures threshold extra; 5,6: the
    occupied / occupied_list props), buffers 7..14 other arrays owned by the object (meaning depends on the entry
    point), buffers 15.. the caller's arguments in order. *)
Definition n_store := 7.
Definition n_internal := 15.
Definition is_store_buf (b : nat) : bool := Nat.ltb b n_store.
Definition is_self_buf (b : nat) : bool := Nat.leb n_store b && Nat.ltb b n_internal.
Definition caller_buf (i : nat) : nat := n_internal + i.
Definition is_caller_buf (n b : nat) : bool := Nat.leb n_internal b && Nat.ltb b (n_internal + n).

Definition F_solution := 0. Definition F_objective := 1. Definition F_measures := 2. Definition F_threshold := 3.
Definition F_extra := 4. Definition F_occupied := 5. Definition F_olist := 6.
(* other internal arrays: field id = 3 + buffer id *)
Definition F_i0 := 10. Definition F_i1 := 11. Definition F_i2 := 12. Definition F_i3 := 13.
Definition F_i4 := 14. Definition F_i5 := 15. Definition F_i6 := 16. Definition F_i7 := 17.
(* fields that do not exist before the call *)
Definition F_new0 := 30. Definition F_new1 := 31. Definition F_new2 := 32. Definition F_new3 := 33.
Definition F_new4 := 34. Definition F_new5 := 35.
(* SlidingBoundariesArchive: the entries of the solution buffer (fields of the last buffered entry) *)
Definition F_buf0 := 40. Definition F_buf1 := 41. Definition F_buf2 := 42. Definition F_buf3 := 43.

Definition init_self : env :=
  map (fun b => (b, fresh_val b)) (seq 0 n_store) ++ map (fun b => (3 + b, fresh_val b)) (seq n_store (n_internal - n_store)).

Fixpoint init_args (i : nat) (la : list layout) : env :=
  match la with
  | [] => []
  | l :: t => (i, value_of_layout (caller_buf i) l) :: init_args (S i) t
  end.

Definition a_init (la : list layout) : astate :=
  mkA (n_internal + length la) (init_args 0 la) init_self [] [] [] false.

(** concrete initial state over an arbitrary heap [h] (its length is what makes it well formed) *)
Definition c_init (la : list layout) (h : list Z) : cstate := mkC h (init_args 0 la) init_self [] [] false.

(** * Programs *)
Inductive ep :=
| StoreAdd | StoreRetrieve | StoreData | StoreIter | StoreRaw | StoreOccupied | StoreFromRaw
| ArchiveAdd | ArchiveAddSingle | SlidingAdd | SlidingAddSingle | ProximityAdd | ProximityAddSingle
| ArchiveRetrieve | ArchiveRetrieveSingle | SampleElites | ArchiveData | BestElite | ArchiveIter
| IndexOf | IndexOfSingle | CVTCtorCentroids | CVTCtorSamples | GridCtor | CqdScore | ComputeNovelty
| GaussianCtor | IsoLineCtor | ESCtor | GAECtor | GOECtor | GACtor
| BaseTell | ESTell | GAETell | GAETellDqd | GOETellDqd
| SchedTell | SchedTellDqd | BanditTell
| AdamCtor | AdamReset | AdamStep | GAscCtor | GAscReset | GAscStep
| ParallelAxes | HeatmapDf
| EmitterAsk.

Definition ep_of_nat (n : nat) : option ep :=
  match n with
  | 0 => Some StoreAdd | 1 => Some StoreRetrieve | 2 => Some StoreData | 3 => Some StoreIter | 4 => Some StoreRaw
  | 5 => Some StoreOccupied | 6 => Some StoreFromRaw
  | 10 => Some ArchiveAdd | 11 => Some ArchiveAddSingle | 12 => Some SlidingAdd | 13 => Some SlidingAddSingle
  | 14 => Some ProximityAdd | 15 => Some ProximityAddSingle | 16 => Some ArchiveRetrieve
  | 17 => Some ArchiveRetrieveSingle | 18 => Some SampleElites | 19 => Some ArchiveData | 20 => Some BestElite
  | 21 => Some ArchiveIter | 22 => Some IndexOf | 23 => Some IndexOfSingle | 24 => Some CVTCtorCentroids
  | 25 => Some CVTCtorSamples | 26 => Some GridCtor | 27 => Some CqdScore | 28 => Some ComputeNovelty
  | 30 => Some GaussianCtor | 31 => Some IsoLineCtor | 32 => Some ESCtor | 33 => Some GAECtor | 34 => Some GOECtor
  | 35 => Some GACtor | 36 => Some BaseTell | 37 => Some ESTell | 38 => Some GAETell | 39 => Some GAETellDqd
  | 40 => Some GOETellDqd | 41 => Some SchedTell | 42 => Some SchedTellDqd | 43 => Some BanditTell
  | 44 => Some AdamCtor | 45 => Some AdamReset | 46 => Some AdamStep | 47 => Some GAscCtor | 48 => Some GAscReset
  | 49 => Some GAscStep | 50 => Some ParallelAxes | 51 => Some HeatmapDf | 52 => Some EmitterAsk
  | _ => None
  end.

Definition all_eps : list ep :=
  [StoreAdd; StoreRetrieve; StoreData; StoreIter; StoreRaw; StoreOccupied; StoreFromRaw;
   ArchiveAdd; ArchiveAddSingle; SlidingAdd; SlidingAddSingle; ProximityAdd; ProximityAddSingle;
   ArchiveRetrieve; ArchiveRetrieveSingle; SampleElites; ArchiveData; BestElite; ArchiveIter;
   IndexOf; IndexOfSingle; CVTCtorCentroids; CVTCtorSamples; GridCtor; CqdScore; ComputeNovelty;
   GaussianCtor; IsoLineCtor; ESCtor; GAECtor; GOECtor; GACtor;
   BaseTell; ESTell; GAETell; GAETellDqd; GOETellDqd; SchedTell; SchedTellDqd; BanditTell;
   AdamCtor; AdamReset; AdamStep; GAscCtor; GAscReset; GAscStep; ParallelAxes; HeatmapDf; EmitterAsk].

(** argument counts: (without optional extra field, with) *)
Definition arities (e : ep) : list nat :=
  match e with
  | StoreAdd => [4] | StoreRetrieve => [1] | StoreFromRaw => [2]
  | StoreData | StoreIter | StoreRaw | StoreOccupied | SampleElites | ArchiveData | BestElite | ArchiveIter | EmitterAsk => [0]
  | ArchiveAdd | ArchiveAddSingle | SlidingAdd | SlidingAddSingle | ProximityAdd | ProximityAddSingle => [3; 4]
  | ArchiveRetrieve | ArchiveRetrieveSingle | IndexOf | IndexOfSingle | CVTCtorCentroids | CVTCtorSamples => [1]
  | GridCtor | CqdScore | ComputeNovelty => [2]
  | GaussianCtor | GOECtor | GACtor => [3] | IsoLineCtor | ESCtor => [2] | GAECtor => [1]
  | BaseTell | ESTell | GAETell => [5; 6]
  | GAETellDqd | GOETellDqd => [6; 7]
  | SchedTell | BanditTell => [2; 3] | SchedTellDqd => [3; 4]
  | AdamCtor | AdamReset | AdamStep | GAscCtor | GAscReset | GAscStep | ParallelAxes | HeatmapDf => [1]
  end.

(** number of straight-line path variants of each entry point *)
Definition n_variants (e : ep) : nat :=
  match e with
  | StoreAdd => 2 | StoreRetrieve | StoreData | ArchiveData => 4
  | ArchiveAdd | ArchiveAddSingle | SlidingAdd | SlidingAddSingle | ProximityAdd | ProximityAddSingle => 2
  | IndexOf | IndexOfSingle => 5 | ComputeNovelty => 2 | BestElite => 2
  | GaussianCtor | IsoLineCtor | GOECtor | GACtor => 2
  | ESTell | GAETell => 2 | GAETellDqd | GOETellDqd => 2
  | SchedTell | BanditTell | SchedTellDqd => 6
  | ParallelAxes => 2
  | EmitterAsk => 4
  | _ => 1
  end.

(** temporaries *)
Definition T (k : nat) : var := 20 + k.

(* ---------------------------------------------------------------------------------------------- *)
(** ribs/_utils.py: validate_batch -- every array-like is passed through np.asarray and rebinds data[name]; WITHOUT dtype
    (105, 132, 143 data; 158, 168, 177 add_info; 190 jacobian) except the objective (124: dtype=archive.dtypes["objective"],
    as validate_single does) and, since fix FC07a, the measures (np.asarray, then .astype(archive dtype, copy=False): the same
    aliasing behaviour as np.asarray with a dtype).  In every caller the registers are  solution objective measures ...  :
    objective is register 1, measures register 2. *)
Definition validate_batch (regs : list var) : list instr :=
  map (fun kr => IAsarray (snd kr) (snd kr) (Nat.eqb (fst kr) 1 || Nat.eqb (fst kr) 2)) (combine (seq 0 (length regs)) regs).

(** ribs/_utils.py: validate_single -- solution (205) and measures (217) np.asarray, objective np_scalar (213,
    a fresh scalar); the measures are converted to the archive's dtype (fix FC07a); extra fields are NOT converted. *)
Definition validate_single (sol obj meas : var) : list instr :=
  [IAsarray sol sol false; ICopy obj obj; IAsarray meas meas true].

(** ArrayStore.retrieve(indices) (_array_store.py 319-376) into registers occ, then one per field, then index.
    322 asarray(dtype=int32); 323 / 347 fancy indexing induces a copy; 345 np.copy(indices). *)
Definition store_fields (has_extra : bool) : list nat :=
  [F_solution; F_objective; F_measures; F_threshold] ++ (if has_extra then [F_extra] else []).

Definition store_retrieve (idx : var) (base : nat) (has_extra : bool) : list instr :=
  [IAsarray (T base) idx true;                       (* 322 *)
   IGetSelf (T (base + 1)) F_occupied; IOp (T (base + 1)) [T (base + 1); T base] 1]   (* 323 *)
  ++ flat_map (fun fl => [IGetSelf (T (base + 2 + fl)) fl; IOp (T (base + 2 + fl)) [T (base + 2 + fl); T base] 1])
              (store_fields has_extra)               (* 347 *)
  ++ [ICopy (T (base + 7)) (T base)].                (* 345 *)
(* registers: T base = indices, T(base+1) = occupied, T(base+2+f) = field f, T(base+7) = index *)

(** the tail of ArrayStore.add (_array_store.py 489-501): occupancy bookkeeping and the write itself *)
Definition store_write (idx : var) (data : list (nat * var)) : list instr :=
  [IGetSelf (T 90) F_occupied; IInplace (T 90) [idx] 2;          (* 491 *)
   IGetSelf (T 91) F_olist; IInplace (T 91) [idx] 2]             (* 492 *)
  ++ flat_map (fun p => [IGetSelf (T 92) (fst p); IInplace (T 92) [idx; snd p] 3]) data.   (* 501 arr[indices] = new_data[name] *)

(** ArchiveBase._stats_update (_archive_base.py 347-378): 356 retrieve([best_index]) -> fresh arrays;
    361 v[0]: view for vector fields, scalar for 1-D; 364 self._best_elite = ... *)
Definition stats_update (best_idx : var) (has_extra : bool) : list instr :=
  store_retrieve best_idx 60 has_extra
  ++ [IView (T 80) (T (62 + F_solution)) true; ICopy (T 81) (T (62 + F_objective));
      IView (T 82) (T (62 + F_measures)) true; ICopy (T 83) (T (62 + F_threshold)); ICopy (T 84) (T 67)]
  ++ (if has_extra then [IView (T 85) (T (62 + F_extra)) true] else [])
  ++ [ISetSelf F_new0 (T 80); ISetSelf F_new1 (T 81); ISetSelf F_new2 (T 82); ISetSelf F_new3 (T 83); ISetSelf F_new4 (T 84)]
  ++ (if has_extra then [ISetSelf F_new5 (T 85)] else []).

(** the archive transform chain on (indices = T 0, data registers) against retrieve results at base 10:
    _transforms.py batch_entries_with_threshold 141-225, compute_objective_sum 228-252, compute_best_index 255-279.
    [inserted = false] is the early-return path (177-178) where nothing can be inserted. *)
Definition archive_transforms (sol obj meas : var) (ev : option var) (inserted : bool) : list instr :=
  let he := match ev with Some _ => true | None => false end in
  store_retrieve (T 0) 10 he                             (* _array_store.py 480 *)
  ++ [IMove (T 30) (T (12 + F_threshold));               (* 153 cur_threshold = cur_data["threshold"] *)
      IInplace (T 30) [T 11] 4;                          (* 154 cur_threshold[~occupied] = threshold_min *)
      IOp (T 31) [obj; T 30] 5;                          (* 161 can_insert *)
      IOp (T 32) [T 31] 6;                               (* 164 add_info["status"] = np.zeros *)
      IInplace (T 32) [T 31; T 11] 7;                    (* 165-166 *)
      IInplace (T 30) [T 31; T 11] 8;                    (* 171 cur_threshold[is_new] = ... *)
      IOp (T 33) [obj; T 30] 9]                          (* 173 add_info["value"] = objective - cur_threshold *)
  ++ (if inserted then
        [IOp (T 1) [T 0; T 31] 1;                        (* 183 indices[can_insert] *)
         IOp (T 2) [sol; T 31] 1; IOp (T 3) [obj; T 31] 1; IOp (T 4) [meas; T 31] 1]   (* 184 *)
        ++ match ev with Some e => [IOp (T 5) [e; T 31] 1] | None => [] end
        ++ [IOp (T 34) [T 30; T 31] 1;                   (* 185 *)
            IMove (T 35) (T 3);                          (* 190 new_threshold = new_data["objective"] *)
            IOp (T 36) [T 1; T 3] 10;                    (* 214 archive_argmax *)
            IOp (T 1) [T 1; T 36] 1;                     (* 221 *)
            IOp (T 2) [T 2; T 36] 1; IOp (T 3) [T 3; T 36] 1; IOp (T 4) [T 4; T 36] 1]     (* 222 *)
        ++ match ev with Some _ => [IOp (T 5) [T 5; T 36] 1] | None => [] end
        ++ [IOp (T 6) [T 35; T 36] 1]                    (* 223 new_data["threshold"] *)
        (* second transform: retrieve again (480), compute_objective_sum *)
        ++ store_retrieve (T 1) 40 he
        ++ [IMove (T 37) (T (42 + F_objective)); IInplace (T 37) [T 41] 4;    (* 248-249 cur_objective[~occupied] = 0 *)
            IOp (T 38) [T 3; T 37] 11]                   (* 250 *)
        (* third transform: retrieve (480), compute_best_index 275-277 *)
        ++ store_retrieve (T 1) 50 he
        ++ [IOp (T 39) [T 1; T 3] 12]
      else
        [IOp (T 1) [] 13]).                              (* 178 np.array([], dtype=int32) *)

(* ---------------------------------------------------------------------------------------------- *)
Definition has_extra_arg (e : ep) (nargs : nat) : bool := Nat.eqb nargs (last (arities e) 0) && Nat.ltb 1 (length (arities e)).

(** Sliding: one buffered entry (SolutionBuffer.add, _sliding_boundaries_archive.py 44-60, called at 449).
    [C12-required copy; unchanged code appends the validated dict itself, i.e. the caller's arrays / row views: F4] *)
Definition sliding_buffer_entry (copy : bool) (sol obj meas : var) (ev : option var) : list instr :=
  (if copy then [ICopy (T 70) sol; ICopy (T 71) meas] else [IMove (T 70) sol; IMove (T 71) meas])
  ++ [ISetSelf F_buf0 (T 70); ISetSelf F_buf1 obj; ISetSelf F_buf2 (T 71)]
  ++ match ev with
     | Some e => (if copy then [ICopy (T 72) e] else [IMove (T 72) e]) ++ [ISetSelf F_buf3 (T 72)]
     | None => []
     end.

(** ArchiveBase.add_single after validation (_archive_base.py 546-573) on registers sol obj meas [ev] *)
Definition archive_add_single_core (sol obj meas : var) (ev : option var) (inserted : bool) : list instr :=
  let he := match ev with Some _ => true | None => false end in
  [IView (T 100) sol true; IView (T 101) obj true; IView (T 102) meas true]        (* 547 np.expand_dims *)
  ++ match ev with Some e => [IAsarray (T 103) e false; IView (T 103) (T 103) true] | None => [] end
  ++ [IView (T 104) meas true; IOp (T 0) [T 104] 14]                               (* 327-330, 550 index_of_single *)
  (* single_entry_with_threshold (_transforms.py 12-86) *)
  ++ store_retrieve (T 0) 10 he
  ++ [ICopy (T 30) (T (12 + F_threshold));                 (* 46 cur_data["threshold"][0] : scalar *)
      ICopy (T 31) (T 101);                                (* 57 new_data["objective"][0] *)
      IOp (T 32) [] 6;                                     (* 60 np.array([0]) *)
      IOp (T 33) [T 31; T 30] 9]                           (* 75 *)
  ++ (if inserted then
        [IOp (T 32) [] 6;                                  (* 66/68 *)
         IOp (T 6) [T 30; T 31] 15]                        (* 72 new_data["threshold"] = [...] *)
        ++ store_retrieve (T 0) 40 he
        ++ [IMove (T 37) (T (42 + F_objective)); IInplace (T 37) [T 41] 4; IOp (T 38) [T 31; T 37] 11]
        ++ store_retrieve (T 0) 50 he ++ [IOp (T 39) [T 0; T 31] 12]
        ++ store_write (T 0) ([(F_solution, T 100); (F_objective, T 101); (F_measures, T 102); (F_threshold, T 6)]
                              ++ match ev with Some _ => [(F_extra, T 103)] | None => [] end)
        ++ [ICopy (T 110) (T 32); ICopy (T 111) (T 33)]    (* 569 arr[0] on 1-D: scalars *)
        ++ stats_update (T 39) he                          (* 571-572 *)
      else
        [IOp (T 1) [] 13; ICopy (T 110) (T 32); ICopy (T 111) (T 33)])
  ++ [IReturn (T 110); IReturn (T 111)].

(** ArchiveBase.add after validation (_archive_base.py 470-503) *)
Definition archive_add_core (sol obj meas : var) (ev : option var) (index_op : nat) (inserted : bool) : list instr :=
  let he := match ev with Some _ => true | None => false end in
  [IOp (T 0) [meas] index_op]                              (* 481 self.index_of(data["measures"]) *)
  ++ archive_transforms sol obj meas ev inserted
  ++ (if inserted then
        store_write (T 1) ([(F_solution, T 2); (F_objective, T 3); (F_measures, T 4); (F_threshold, T 6)]
                           ++ match ev with Some _ => [(F_extra, T 5)] | None => [] end)
        ++ stats_update (T 39) he                          (* 500-501 *)
      else [])
  ++ [IReturn (T 32); IReturn (T 33)].                     (* 503 add_info: status, value *)

Definition opt_ev (e : ep) (nargs pos : nat) : option var := if has_extra_arg e nargs then Some pos else None.

(** emitters' tell: validate_batch, then what the emitter does with the data *)
Definition ranker_and_opt (spy : bool) (regs : list var) : list instr :=
  (if spy then map IExpose regs else [])                   (* self._ranker.rank(self, archive, data, add_info) *)
  ++ [IOp (T 20) [nth 1 regs 0] 20; IOp (T 21) [nth 1 regs 0] 21].   (* indices, ranking_values: fresh (rankers.py: argsort / projections) *)

Definition emitter_tell (kind : nat) (spy : bool) (regs : list var) : list instr :=
  validate_batch regs                                      (* _evolution_strategy_emitter.py 217 / _gradient_arborescence_emitter.py 372 *)
  ++ match kind with
     | 0 => []                                             (* EmitterBase.tell: no-op (_emitter_base.py 103) *)
     | 1 => ranker_and_opt spy regs
            ++ [IGetSelf (T 22) F_i0; IOp (T 23) [T 22; T 20] 1;   (* opt.tell: self._solutions[ranking_indices] (own) *)
                IOp (T 24) [T 23] 22; ISetSelf F_i1 (T 24)]         (* new mean / covariance: fresh *)
     | _ => ranker_and_opt spy regs
            ++ [IOp (T 25) [hd 0 regs; T 20] 1;            (* _gradient_arborescence_emitter.py 404 data["solution"][indices] *)
                IView (T 25) (T 25) true;                  (* 405 parents[:num_parents] *)
                IOp (T 26) [T 25] 23;                      (* 409 new_mean *)
                IGetSelf (T 27) F_i2; IOp (T 28) [T 26; T 27] 24;   (* 412 gradient_step *)
                IAsarray (T 28) (T 28) false; IOp (T 29) [T 28] 25; (* _adam_opt.py 82 -np.asarray(gradient) / _gradient_ascent_opt.py step *)
                IInplace (T 29) [T 27] 26;                 (* 85 gradient += l2 * theta (on the fresh negated copy) *)
                IInplace (T 27) [T 29] 27]                 (* 95 self._theta += step *)
     end.

(** DQD emitters' tell_dqd: _gradient_arborescence_emitter.py 330-346, _gradient_operator_emitter.py 316-333.
    [C12-required copy; unchanged code: `jacobian /= norms` in place on the np.asarray'd argument and
     `self._jacobian_batch = jacobian` : F3] *)
Definition tell_dqd (copy normalize : bool) (regs : list var) (jac : var) : list instr :=
  validate_batch regs
  ++ (if normalize then
        [IOp (T 20) [jac] 30]                              (* 343 norms *)
        ++ (if copy then [IOp (T 21) [jac; T 20] 31] else [IInplace jac [T 20] 31; IMove (T 21) jac])   (* 345 *)
      else (if copy then [ICopy (T 21) jac] else [IMove (T 21) jac]))
  ++ [ISetSelf F_i3 (T 21)].                               (* 346 *)

(** constructors of emitters: x0 np.array (copy), initial_solutions np.asarray(dtype) then kept, bounds read
    element-wise into fresh arrays (_emitter_base.py 60-78), sigma np.array.
    [C12-required copy; unchanged code keeps the np.asarray'd initial_solutions: F15] *)
Definition emitter_start (copy use_init : bool) (r : var) : list instr :=
  if use_init then
    (if copy then [ICopy (T 20) r] else [IAsarray (T 20) r true]) ++ [ISetSelf F_new1 (T 20)]
  else [ICopy (T 20) r; ISetSelf F_new0 (T 20)].

Definition emitter_bounds (r : var) : list instr :=
  [IOp (T 21) [] 40; IOp (T 22) [] 40;                     (* _emitter_base.py 60-61 np.full *)
   IInplace (T 21) [r] 41; IInplace (T 22) [r] 41;         (* 76-77 lower_bounds[idx] = bnd[0] *)
   ISetSelf F_new2 (T 21); ISetSelf F_new3 (T 22)].

(** Scheduler._validate_tell_data (_scheduler.py 236-246), _add_to_archives (256-294), the slicing loop (340-353 /
    381-393).  akind: 0 ArchiveBase (Grid, CVT), 1 Sliding, 2 Proximity.  One emitter slice is modelled (every
    iteration has the same alias relation): emitter 0 is an EvolutionStrategyEmitter-like consumer. *)
Definition sched_archive_add (copy : bool) (akind : nat) (single : bool) (obj meas : var) (ev : option var) : list instr :=
  let sol := T 120 in
  [IGetSelf sol F_i4]                                      (* 244 data["solution"] = self._cur_solutions *)
  ++ (if single then
        (* 272-279: arr[i] rows *)
        [IView (T 121) sol true; ICopy (T 122) obj; IView (T 123) meas true]
        ++ match ev with Some e => [IView (T 124) e true] | None => [] end
        ++ validate_single (T 121) (T 122) (T 123)
        ++ match akind with
           | 1 => sliding_buffer_entry copy (T 121) (T 122) (T 123) (match ev with Some _ => Some (T 124) | None => None end)
           | _ => []
           end
        ++ archive_add_single_core (T 121) (T 122) (T 123) (match ev with Some _ => Some (T 124) | None => None end) true
      else
        validate_batch ([sol; obj; meas] ++ match ev with Some e => [e] | None => [] end)
        ++ match akind with
           | 1 => [IView (T 121) sol true; ICopy (T 122) obj; IView (T 123) meas true]   (* Sliding.add 415-417 arr[i] *)
                  ++ match ev with Some e => [IView (T 124) e true] | None => [] end
                  ++ validate_single (T 121) (T 122) (T 123)
                  ++ sliding_buffer_entry copy (T 121) (T 122) (T 123) (match ev with Some _ => Some (T 124) | None => None end)
                  ++ archive_add_single_core (T 121) (T 122) (T 123) (match ev with Some _ => Some (T 124) | None => None end) true
           | _ => archive_add_core sol obj meas ev 16 true
           end).

Definition sched_emitter_slices (obj meas : var) (ev : option var) : list instr :=
  [IGetSelf (T 130) F_i4; IView (T 130) (T 130) true;      (* arr[pos:end] of solution, objective, measures, fields *)
   IView (T 131) obj true; IView (T 132) meas true]
  ++ match ev with Some e => [IView (T 133) e true] | None => [] end
  ++ [IOp (T 134) [] 6; IView (T 134) (T 134) true; IOp (T 135) [] 9; IView (T 135) (T 135) true].   (* add_info slices *)

(* ---------------------------------------------------------------------------------------------- *)
(** [prog copy e variant nargs]: copy = true is the program C12 requires; copy = false the unchanged code at the
    marked places (used for the `_refuted` examples and to explain the harness' findings). *)
Definition prog_gen (copy : bool) (e : ep) (variant nargs : nat) : list instr :=
  let he := has_extra_arg e nargs in
  match e with
  (* ---- ArrayStore ---- *)
  | StoreAdd =>                                            (* _array_store.py 380-503; args indices objective measures solution *)
      (if Nat.eqb variant 1 then                           (* with user transforms (twice): 479-483 *)
         flat_map (fun _ => store_retrieve 0 10 false
                            ++ [IExpose 0; IExpose 1; IExpose 2; IExpose 3; IExpose (T 11); IExpose (T (12 + F_solution));
                                IExpose (T (12 + F_objective)); IExpose (T (12 + F_measures)); IExpose (T 17)]) [0; 1]
       else [])
      ++ store_write 0 [(F_objective, 1); (F_measures, 2); (F_solution, 3)]
  | StoreRetrieve =>                                       (* 319-376 *)
      store_retrieve 0 10 false
      ++ [IReturn (T 11)]
      ++ match variant with
         | 2 => [IView (T 30) (T (12 + F_solution)) false; IView (T 31) (T (12 + F_measures)) false;   (* 363 arr[:, i] *)
                 IReturn (T 30); IReturn (T 31); IReturn (T (12 + F_objective)); IReturn (T 17)]
         | 3 => [IReturn (T (12 + F_solution))]
         | _ => [IReturn (T (12 + F_solution)); IReturn (T (12 + F_objective)); IReturn (T (12 + F_measures)); IReturn (T 17)]
         end
  | StoreData | ArchiveData =>                             (* 390 retrieve(self.occupied_list, ...) ; 174 readonly slice *)
      [IGetSelf (T 1) F_olist; IView (T 1) (T 1) true; IReadonly (T 1) (T 1)]
      ++ store_retrieve (T 1) 10 true
      ++ match variant with
         | 2 => [IView (T 30) (T (12 + F_solution)) false; IView (T 31) (T (12 + F_measures)) false;
                 IReturn (T 30); IReturn (T 31); IReturn (T (12 + F_objective)); IReturn (T 17);
                 ICopy (T 32) (T 30); IReturn (T 32)]      (* _archive_data_frame.py 126/132 to_numpy(copy=True) *)
         | 3 => [IReturn (T (12 + F_solution))]
         | _ => [IReturn (T (12 + F_solution)); IReturn (T (12 + F_objective)); IReturn (T (12 + F_measures));
                 IReturn (T (12 + F_threshold)); IReturn (T (12 + F_extra)); IReturn (T 17)]
         end
  | StoreIter | ArchiveIter =>                             (* ArrayStoreIterator.__next__ 34-57 *)
      [IGetSelf (T 1) F_olist; ICopy (T 2) (T 1);          (* 50 occupied_list[iter_idx] : scalar *)
       IGetSelf (T 3) F_solution; IGetSelf (T 4) F_objective; IGetSelf (T 5) F_measures; IGetSelf (T 6) F_extra]
      (* 55 d[name] = arr[idx]  [C12-required copy; unchanged code yields the row VIEW for vector fields: F5] *)
      ++ (if copy then [ICopy (T 3) (T 3); ICopy (T 5) (T 5); ICopy (T 6) (T 6)]
          else [IView (T 3) (T 3) true; IView (T 5) (T 5) true; IView (T 6) (T 6) true])
      ++ [ICopy (T 4) (T 4); IReturn (T 2); IReturn (T 3); IReturn (T 4); IReturn (T 5); IReturn (T 6)]
  | StoreRaw =>                                            (* 557-564 readonly(val.view()) *)
      flat_map (fun fl => [IGetSelf (T fl) fl; IView (T fl) (T fl) true; IReadonly (T fl) (T fl); IReturn (T fl)])
               [F_solution; F_objective; F_measures; F_occupied; F_olist]
  | StoreOccupied =>                                       (* 168, 174 *)
      [IGetSelf (T 1) F_occupied; IView (T 1) (T 1) true; IReadonly (T 1) (T 1); IReturn (T 1);
       IGetSelf (T 2) F_olist; IView (T 2) (T 2) true; IReadonly (T 2) (T 2); IReturn (T 2)]
  | StoreFromRaw =>                                        (* 567-600; args: a props array, a field array *)
      (* [C12-required copy; unchanged code stores the caller's arrays themselves (596-597): FC12a] *)
      (if copy then [ICopy (T 1) 0; ICopy (T 2) 1] else [IMove (T 1) 0; IMove (T 2) 1])
      ++ [ISetSelf F_new0 (T 1); ISetSelf F_new1 (T 2)]
  (* ---- archives ---- *)
  | ArchiveAdd =>                                          (* _archive_base.py 380-503; args solution objective measures [extra] *)
      validate_batch ([0; 1; 2] ++ if he then [3] else [])
      ++ archive_add_core 0 1 2 (opt_ev e nargs 3) 16 (Nat.eqb variant 0)
  | ArchiveAddSingle =>                                    (* 505-574 *)
      validate_single 0 1 2
      ++ archive_add_single_core 0 1 2 (opt_ev e nargs 3) (Nat.eqb variant 0)
  | SlidingAddSingle =>                                    (* _sliding_boundaries_archive.py 428-462; variant 1: remap *)
      validate_single 0 1 2                                (* 438 *)
      ++ sliding_buffer_entry copy 0 1 2 (opt_ev e nargs 3)        (* 449 *)
      ++ (if Nat.eqb variant 1 then
            (* _remap 340-391: cur_data = store.data() (fresh), buffer entries concatenated (383: fresh), re-added *)
            [IGetSelf (T 140) F_buf0; IGetSelf (T 141) F_buf1; IGetSelf (T 142) F_buf2;
             IOp (T 143) [T 140] 50; IOp (T 144) [T 141] 50; IOp (T 145) [T 142] 50;
             IOp (T 0) [T 145] 16; IGetSelf (T 146) F_occupied; IInplace (T 146) [] 51]       (* clear() 386 *)
            ++ store_write (T 0) [(F_solution, T 143); (F_objective, T 144); (F_measures, T 145)]
          else [])
      ++ archive_add_single_core 0 1 2 (opt_ev e nargs 3) true
  | SlidingAdd =>                                          (* 393-426: validate_batch, then add_single on arr[i] *)
      validate_batch ([0; 1; 2] ++ if he then [3] else [])
      ++ [IView (T 121) 0 true; ICopy (T 122) 1; IView (T 123) 2 true]       (* 415-417 *)
      ++ (if he then [IView (T 124) 3 true] else [])
      ++ validate_single (T 121) (T 122) (T 123)
      ++ sliding_buffer_entry copy (T 121) (T 122) (T 123) (if he then Some (T 124) else None)
      ++ archive_add_single_core (T 121) (T 122) (T 123) (if he then Some (T 124) else None) true
      ++ [IOp (T 150) [T 110] 52; IOp (T 151) [T 111] 52; IReturn (T 150); IReturn (T 151)]  (* 421-424 np.empty + item writes *)
  | ProximityAdd =>                                        (* _proximity_archive.py 294-500 *)
      validate_batch ([0; 1; 2] ++ if he then [3] else [])         (* 394 *)
      ++ [IOp (T 160) [2] 60;                              (* 409 compute_novelty: fresh *)
          IOp (T 161) [T 160] 61]                          (* 411 novel_enough *)
      ++ (if Nat.eqb variant 0 then
            [IOp (T 162) [0; T 161] 1; IOp (T 163) [1; T 161] 1; IOp (T 164) [2; T 161] 1]     (* 437 val[novel_enough] *)
            ++ (if he then [IOp (T 165) [3; T 161] 1] else [])
            ++ [IOp (T 0) [T 161] 62]                      (* 436 np.arange *)
            ++ archive_transforms (T 162) (T 163) (T 164) (if he then Some (T 165) else None) true
            ++ store_write (T 1) ([(F_solution, T 2); (F_objective, T 3); (F_measures, T 4); (F_threshold, T 6)]
                                  ++ if he then [(F_extra, T 5)] else [])
            ++ stats_update (T 39) he
            ++ [IGetSelf (T 166) F_measures; IOp (T 167) [T 166] 1; ISetSelf F_i5 (T 167)]    (* 491 cKDTree(store.data("measures")) *)
          else [IOp (T 32) [] 6])
      ++ [IOp (T 168) [T 32] 63; IReturn (T 168); IReturn (T 160)]         (* 480-482 all_status; 468 novelty *)
  | ProximityAddSingle =>                                  (* 502-541: validate_single, then add(key=[val], ...) *)
      validate_single 0 1 2
      ++ [IOp (T 170) [0] 64; IOp (T 171) [1] 64; IOp (T 172) [2] 64]      (* 541 [val] lists -> np.asarray: fresh *)
      ++ (if he then [IOp (T 173) [3] 64] else [])
      ++ [IOp (T 160) [T 172] 60; IOp (T 161) [T 160] 61; IOp (T 168) [T 161] 63; IReturn (T 168); IReturn (T 160)]
  | ArchiveRetrieve =>                                     (* _archive_base.py 576-643 *)
      [IAsarray 0 0 false;                                 (* 624 *)
       IOp (T 0) [0] 16]                                   (* 628 index_of *)
      ++ store_retrieve (T 0) 10 true
      ++ [IOp (T 20) [T 11] 17]                            (* 629 ~occupied *)
      ++ flat_map (fun r => [IInplace r [T 20] 18])        (* 641 arr[unoccupied] = fill_val, on the fresh arrays *)
                  [T (12 + F_solution); T (12 + F_objective); T (12 + F_measures); T (12 + F_threshold); T (12 + F_extra); T 17]
      ++ map IReturn [T 11; T (12 + F_solution); T (12 + F_objective); T (12 + F_measures); T (12 + F_threshold); T (12 + F_extra); T 17]
  | ArchiveRetrieveSingle =>                               (* 645-671 *)
      [IAsarray 0 0 false; IView (T 1) 0 true;             (* 665, 669 measures[None] *)
       IOp (T 0) [T 1] 16]
      ++ store_retrieve (T 0) 10 true
      ++ [IOp (T 20) [T 11] 17]
      ++ flat_map (fun r => [IInplace r [T 20] 18])
                  [T (12 + F_solution); T (12 + F_objective); T (12 + F_measures); T (12 + F_threshold); T (12 + F_extra); T 17]
      ++ [ICopy (T 30) (T 11); IView (T 31) (T (12 + F_solution)) true; ICopy (T 32) (T (12 + F_objective));    (* 671 arr[0] *)
          IView (T 33) (T (12 + F_measures)) true; IView (T 34) (T (12 + F_extra)) true]
      ++ map IReturn [T 30; T 31; T 32; T 33; T 34]
  | SampleElites =>                                        (* 673-702 *)
      [IGetSelf (T 1) F_olist; IView (T 1) (T 1) true; IReadonly (T 1) (T 1);      (* store.occupied_list *)
       IOp (T 2) [] 19; IOp (T 3) [T 1; T 2] 1]            (* 699-700 occupied_list[random_indices] *)
      ++ store_retrieve (T 3) 10 true
      ++ map IReturn [T (12 + F_solution); T (12 + F_objective); T (12 + F_measures); T (12 + F_threshold); T (12 + F_extra); T 17]
  | BestElite =>                                           (* 227-247: the cached dict of _stats_update; variant 1: empty archive, None *)
      (* fix FC12d: the property hands out a copy of the cached dict's arrays, not the dict itself *)
      if Nat.eqb variant 0
      then (if copy then [IGetSelf (T 1) F_i6; ICopy (T 2) (T 1); IReturn (T 2)] else [IGetSelf (T 1) F_i6; IReturn (T 1)])
      else []
  | IndexOf =>                                             (* Grid 198, CVT 312, Sliding 310, Proximity 209: np.asarray, then fresh results *)
      [IAsarray 0 0 false]
      ++ match variant with
         | 2 => [IView (T 1) 0 true; IGetSelf (T 2) F_i0; IOp (T 3) [T 1; T 2] 70; IOp (T 4) [T 3] 71]   (* _cvt_archive.py 320-341 brute force *)
         | 1 | 4 => [IGetSelf (T 2) F_i5; IOp (T 3) [0; T 2] 72; IOp (T 4) [T 3] 73]              (* kd-tree query + astype *)
         | 3 => [IOp (T 1) [0] 74; IView (T 2) (T 1) false; IOp (T 4) [T 2] 75]                   (* _sliding 316-337 clip, .T columns, searchsorted *)
         | _ => [IOp (T 1) [0] 76; IOp (T 4) [T 1] 77]                                            (* _grid_archive.py 203-213 *)
         end
      ++ [IReturn (T 4)]
  | IndexOfSingle =>                                       (* _archive_base.py 309-330 *)
      [IAsarray 0 0 false; IView (T 1) 0 true; IAsarray (T 1) (T 1) false; IOp (T 3) [T 1] 16; ICopy (T 4) (T 3); IReturn (T 4)]
  | CVTCtorCentroids =>                                    (* _cvt_archive.py 236-256 *)
      (* [C12-required copy; unchanged code keeps np.asarray(custom_centroids, dtype) and hands it to cKDTree: F15] *)
      (if copy then [ICopy (T 1) 0] else [IAsarray (T 1) 0 true])
      ++ [ISetSelf F_new0 (T 1); IView (T 2) (T 1) true; ISetSelf F_new1 (T 2)]   (* 245, 254 cKDTree(self._centroids) *)
  | CVTCtorSamples =>                                      (* 186-205 *)
      (if copy then [ICopy (T 1) 0] else [IAsarray (T 1) 0 true])        (* 188 [C12-required copy: F15] *)
      ++ [ISetSelf F_new0 (T 1); IOp (T 2) [T 1] 80; ISetSelf F_new1 (T 2);      (* 194, 202 k_means -> fresh centroids *)
          IView (T 3) (T 2) true; ISetSelf F_new2 (T 3)]
  | GridCtor =>                                            (* _grid_archive.py 83, 102-103 / _sliding 168, 185-186: np.array copies *)
      [ICopy (T 1) 0; ISetSelf F_new0 (T 1); IOp (T 2) [1] 81; IOp (T 3) [1] 81; ISetSelf F_new1 (T 2); ISetSelf F_new2 (T 3);
       IOp (T 4) [T 2; T 3] 82; ISetSelf F_new3 (T 4)]
  | CqdScore =>                                            (* _archive_base.py 873, 891 np.copy since returned *)
      [ICopy (T 1) 0; ICopy (T 2) 1; IGetSelf (T 3) F_objective; IOp (T 4) [T 3] 1; IOp (T 5) [T 4; T 1; T 2] 83;
       IReturn (T 5); IReturn (T 1); IReturn (T 2)]
  | ComputeNovelty =>                                      (* _proximity_archive.py 223-292 *)
      [IAsarray 0 0 false]                                 (* 244 *)
      ++ (if Nat.eqb variant 1 then [IAsarray 1 1 false] else [])   (* 248 *)
      ++ [IGetSelf (T 1) F_i5; IOp (T 2) [0; T 1] 72; IOp (T 3) [T 2] 84; IReturn (T 3)]
      ++ (if Nat.eqb variant 1 then [IOp (T 4) [1; T 2] 85; IReturn (T 4)] else [])
  (* ---- emitters: constructors ---- *)
  | GaussianCtor =>                                        (* _gaussian_emitter.py 60-90; args sigma, x0|initial_solutions, bounds *)
      [ICopy (T 19) 0; ISetSelf F_new4 (T 19)]             (* 60 np.array(sigma) *)
      ++ emitter_start copy (Nat.eqb variant 1) 1 ++ emitter_bounds 2
  | IsoLineCtor => emitter_start copy (Nat.eqb variant 1) 0 ++ emitter_bounds 1           (* _iso_line_emitter.py 82-96 *)
  | ESCtor => emitter_start copy false 0 ++ emitter_bounds 1 ++ [IGetSelf (T 23) F_new0; ICopy (T 24) (T 23); ISetSelf F_new4 (T 24)]
  | GAECtor => emitter_start copy false 0 ++ [IGetSelf (T 23) F_new0; ICopy (T 24) (T 23); ISetSelf F_new4 (T 24)]   (* _adam_opt.py 59 np.copy(theta0) *)
  | GOECtor =>                                             (* _gradient_operator_emitter.py 124-147; args x0|init, bounds, sigma *)
      emitter_start copy (Nat.eqb variant 1) 0 ++ emitter_bounds 1 ++ [ICopy (T 19) 2; ISetSelf F_new4 (T 19)]      (* 146 np.array(sigma) *)
  | GACtor =>                                              (* _genetic_algorithm_emitter.py 52-85, operators/_gaussian.py 23 *)
      emitter_start copy (Nat.eqb variant 1) 0 ++ emitter_bounds 1
      (* [C12-required copy; unchanged GaussianOperator keeps `sigma` as passed: FC12b] *)
      ++ (if copy then [ICopy (T 19) 2] else [IMove (T 19) 2]) ++ [ISetSelf F_new4 (T 19)]
  (* ---- emitters: tell / tell_dqd; args solution objective measures [jacobian] status value [extra] ---- *)
  | BaseTell => emitter_tell 0 false (seq 0 nargs)
  | ESTell => emitter_tell 1 (Nat.eqb variant 1) (seq 0 nargs)
  | GAETell => emitter_tell 2 (Nat.eqb variant 1) (seq 0 nargs)
  | GAETellDqd | GOETellDqd => tell_dqd copy (Nat.eqb variant 1) (seq 0 nargs) 3
  (* ---- schedulers; args objective measures [jacobian] [extra]; variant = 2 * archive kind + single ---- *)
  | SchedTell | BanditTell =>
      let ev := opt_ev e nargs 2 in
      [IAsarray 0 0 false; IAsarray 1 1 false]             (* _scheduler.py 241 *)
      ++ match ev with Some r => [IAsarray r r false] | None => [] end
      ++ sched_archive_add copy (Nat.div variant 2) (Nat.eqb (Nat.modulo variant 2) 1) 0 1 ev
      ++ sched_emitter_slices 0 1 ev
      ++ emitter_tell 1 false ([T 130; T 131; T 132; T 134; T 135] ++ match ev with Some _ => [T 133] | None => [] end)
  | SchedTellDqd =>
      let ev := opt_ev e nargs 3 in
      [IAsarray 0 0 false; IAsarray 1 1 false]
      ++ match ev with Some r => [IAsarray r r false] | None => [] end
      ++ [IAsarray 2 2 false]                              (* 335 jacobian = np.asarray(jacobian) *)
      ++ sched_archive_add copy (Nat.div variant 2) (Nat.eqb (Nat.modulo variant 2) 1) 0 1 ev
      ++ sched_emitter_slices 0 1 ev
      ++ [IView (T 136) 2 true]                            (* 349 jacobian[pos:end] *)
      ++ tell_dqd copy true ([T 130; T 131; T 132; T 136; T 134; T 135] ++ match ev with Some _ => [T 133] | None => [] end) (T 136)
  (* ---- gradient optimizers ---- *)
  | AdamCtor | AdamReset | GAscCtor | GAscReset =>         (* _adam_opt.py 58-62 / _gradient_ascent_opt.py reset: np.copy(theta0) *)
      [ICopy (T 1) 0; ISetSelf F_i2 (T 1); IOp (T 2) [T 1] 90; ISetSelf F_i7 (T 2)]
  | AdamStep =>                                            (* _adam_opt.py 79-96 *)
      [IAsarray (T 1) 0 false; IOp (T 2) [T 1] 25;         (* 82 gradient = -np.asarray(gradient): fresh *)
       IGetSelf (T 3) F_i2; IInplace (T 2) [T 3] 26;       (* 85 gradient += ... on the fresh array *)
       IOp (T 4) [T 2] 91; ISetSelf F_i7 (T 4); IOp (T 5) [T 4] 92; IInplace (T 3) [T 5] 27]    (* 91-96 *)
  | GAscStep =>                                            (* _gradient_ascent_opt.py step *)
      [IAsarray (T 1) 0 false; IOp (T 2) [T 1] 93; IGetSelf (T 3) F_i2; IInplace (T 3) [T 2] 27]
  (* ---- visualisation: the caller's frame is the argument ---- *)
  | ParallelAxes =>                                        (* _parallel_axes_plot.py 167-174 *)
      [IAsarray (T 1) 0 true]                              (* 167 validate_df: same object iff already an ArchiveDataFrame *)
      ++ (if Nat.eqb variant 1 then
            (* 172 [C12-required copy; unchanged code: df.sort_values(..., inplace=True): F14] *)
            (if copy then [IOp (T 1) [T 1] 95] else [IInplace (T 1) [] 95])
          else [])
      ++ [ICopy (T 2) (T 1); ICopy (T 3) (T 1)]            (* 173-174 get_field: to_numpy(copy=True) *)
  | HeatmapDf => [IAsarray (T 1) 0 true; ICopy (T 2) (T 1); ICopy (T 3) (T 1)]
  (* ---- emitters: ask / ask_dqd (no array arguments; what is handed out) ---- *)
  | EmitterAsk =>
      match variant with
      | 1 =>                                               (* ES / GAE.ask: opt.ask() allocates self._solutions anew (_cma_es.py 190) and
                                                              returns readonly(self._solutions) (221) *)
          [IOp (T 1) [] 100; ISetSelf F_i0 (T 1); IReadonly (T 2) (T 1); IReturn (T 2)]
      | 2 =>                                               (* GOE.ask_dqd: self._parents = sol; return self._parents (fresh, kept) *)
          [IGetSelf (T 1) F_solution; IOp (T 2) [T 1] 1; IOp (T 3) [T 2] 102; ISetSelf F_i1 (T 3); IReturn (T 3)]
      | 3 =>                                               (* GAE.ask_dqd (_gradient_arborescence_emitter.py 261)
                                                              [C12-required copy; unchanged code returns the VIEW theta[None] of the gradient
                                                               optimizer's theta, which step() later updates in place: FC12c] *)
          [IGetSelf (T 1) F_i2] ++ (if copy then [ICopy (T 2) (T 1)] else [IView (T 2) (T 1) true]) ++ [IReturn (T 2)]
      | _ =>                                               (* Gaussian / IsoLine / GA / GOE.ask: parents from sample_elites (fresh) or x0 /
                                                              initial_solutions, + noise, np.clip: fresh *)
          [IGetSelf (T 1) F_solution; IOp (T 2) [T 1] 1; IOp (T 3) [T 2] 102; IReturn (T 3)]
      end
  end.

Definition prog := prog_gen true.
Definition prog_asis := prog_gen false.

(** * Checks on the final abstract state (what the theorems are about) *)
Definition bufs (e : env) : list nat := map (fun p => vbuf (snd p)) e.

Definition arg_mutated (a : astate) (i : nat) : bool := memb (caller_buf i) (a_mut a).
Definition arg_retained (a : astate) (i : nat) : bool := memb (caller_buf i) (bufs (a_self a)).
Definition arg_returned (a : astate) (i : nat) : bool := existsb (fun v => Nat.eqb (vbuf v) (caller_buf i)) (a_ret a).
Definition arg_exposed (a : astate) (i : nat) : bool := existsb (fun v => Nat.eqb (vbuf v) (caller_buf i)) (a_exp a).
Definition rw_store (a : astate) : bool := existsb (fun v => vw v && is_store_buf (vbuf v)) (a_ret a).
Definition ro_store (a : astate) : bool := existsb (fun v => negb (vw v) && is_store_buf (vbuf v)) (a_ret a).
(** handed out writable AND still referenced by self (the cached best_elite dict) *)
Definition rw_self (a : astate) : bool :=
  existsb (fun v => vw v && negb (is_store_buf (vbuf v)) && memb (vbuf v) (bufs (a_self a))) (a_ret a).
Definition exp_store (a : astate) : bool := existsb (fun v => is_store_buf (vbuf v)) (a_exp a).

(** the clean verdict: ran to completion, no caller buffer mutated / retained / handed back, no writable
    handle on a store buffer or a caller buffer handed out *)
Definition clean (n : nat) (a : astate) : bool :=
  negb (a_halt a)
  && forallb (fun b => negb (is_caller_buf n b)) (a_mut a)
  && forallb (fun b => negb (is_caller_buf n b)) (bufs (a_self a))
  && forallb (fun v => negb (vw v && (is_store_buf (vbuf v) || is_caller_buf n (vbuf v)))) (a_ret a).

Definition all_layouts : list layout := [ExactNdarray; ViewOf; NonContiguous; OtherDtype; PyList].

Fixpoint layout_vectors (n : nat) : list (list layout) :=
  match n with
  | O => [[]]
  | S k => flat_map (fun l => map (fun t => l :: t) (layout_vectors k)) all_layouts
  end.

Definition check_ep (e : ep) : bool :=
  forallb (fun n => forallb (fun v => forallb (fun la => clean n (arun (prog e v n) (a_init la))) (layout_vectors n))
                            (seq 0 (n_variants e)))
          (arities e).

Definition check_all : bool := forallb check_ep all_eps.

(* ---------------------------------------------------------------------------------------------- *)
(** * Read paths over the Store model (second group).
    A row has named fields, each a vector of scalars; the store holds rows column-wise like ArrayStore. *)
Section ReadPaths.
Variable R : Type.          (* row *)
Variable V : Type.          (* scalar *)
Variable dflt : V.
Variable fields : list nat.                 (* field names *)
Variable dim : nat -> nat.                  (* declared length of each field (scalar fields: 1) *)
Variable proj : nat -> R -> list V.         (* the value of a field of a row *)
Variable rdflt : R.

Definition row_at (s : store R) (i : nat) : R := match get_row s i with Some r => r | None => rdflt end.

(** data(): retrieve(occupied_list): one array per field, fancy-indexed by occupied_list, plus "index" *)
Definition column (s : store R) (fl : nat) : list (list V) := map (fun i => proj fl (row_at s i)) (olist s).
Definition read_dict (s : store R) : list (nat * list (list V)) * list nat :=
  (map (fun fl => (fl, column s fl)) fields, olist s).
Definition read_tuple (s : store R) : list (list (list V)) * list nat := (map (column s) fields, olist s).
Definition read_single (s : store R) (fl : nat) : list (list V) := column s fl.

(** elites as the user sees them: index + the value of every field *)
Definition elite := (nat * list (nat * list V))%type.
Definition elite_of (s : store R) (i : nat) : elite := (i, map (fun fl => (fl, proj fl (row_at s i))) fields).
Definition elites_spec (s : store R) : list elite := map (elite_of s) (olist s).

Definition transpose_rows (idx : list nat) (cols : list (nat * list (list V))) : list elite :=
  map (fun k => (nth k idx 0, map (fun c => (fst c, nth k (snd c) [])) cols)) (seq 0 (length idx)).
Definition elites_of_dict (d : list (nat * list (list V)) * list nat) : list elite := transpose_rows (snd d) (fst d).
Definition elites_of_tuple (t : list (list (list V)) * list nat) : list elite :=
  transpose_rows (snd t) (combine fields (fst t)).

(** iteration: drive the iterator of Model/Store.v until it stops *)
Fixpoint iter_collect (s : store R) (it : iter) (fuel : nat) : list elite :=
  match fuel with
  | O => []
  | S k => match iter_next s it with
           | (it', Yield i r) => (i, map (fun fl => (fl, proj fl (match r with Some x => x | None => rdflt end))) fields)
                                 :: iter_collect s it' k
           | (_, _) => []
           end
  end.
Definition read_iter (s : store R) : list elite := iter_collect s (iter_new s) (S (len s)).

(** pandas: a vector field of declared length d becomes d scalar columns name_j (arr[:, j]) *)
Definition pandas_columns (s : store R) : list ((nat * nat) * list V) :=
  flat_map (fun fl => map (fun j => ((fl, j), map (fun v => nth j v dflt) (column s fl))) (seq 0 (dim fl))) fields.
Definition read_pandas (s : store R) : list ((nat * nat) * list V) * list nat := (pandas_columns s, olist s).

(** ArchiveDataFrame.get_field: collect the columns name_0.. and stack them back (to_numpy) *)
Definition df_get_field (df : list ((nat * nat) * list V) * list nat) (fl : nat) : list (list V) :=
  let cols := filter (fun c => Nat.eqb (fst (fst c)) fl) (fst df) in
  map (fun k => map (fun c => nth k (snd c) dflt) cols) (seq 0 (length (snd df))).
(** ArchiveDataFrame.iterelites: get_field for every field, then row k of each *)
Definition df_iterelites (df : list ((nat * nat) * list V) * list nat) : list elite :=
  transpose_rows (snd df) (map (fun fl => (fl, df_get_field df fl)) fields).
End ReadPaths.

Arguments row_at {R} rdflt s i.
Arguments column {R V} proj rdflt s fl.
Arguments read_dict {R V} fields proj rdflt s.
Arguments read_tuple {R V} fields proj rdflt s.
Arguments read_single {R V} proj rdflt s fl.
Arguments read_iter {R V} fields proj rdflt s.
Arguments iter_collect {R V} fields proj rdflt s it fuel.
Arguments read_pandas {R V} dflt fields dim proj rdflt s.
Arguments pandas_columns {R V} dflt fields dim proj rdflt s.
Arguments elites_spec {R V} fields proj rdflt s.
Arguments elite_of {R V} fields proj rdflt s i.
Arguments df_get_field {V} dflt df fl.
Arguments df_iterelites {V} dflt fields df.
Arguments elites_of_dict {V} d.
Arguments elites_of_tuple {V} fields t.
Arguments transpose_rows {V} idx cols.
