(** Executable runner for the optimizer model (Model/Opt.v).
    A draw is identified by its position in the stream; the harness tells for every drawn row
    whether the solution computed from it is out of bounds. *)
From Coq Require Import List Arith ZArith QArith Bool.
From PV Require Import Base.ListUtil Model.Sx Model.Opt.
Import ListNotations.
Open Scope Z_scope.

Definition eresult {D S} (es : S -> sx) (ed : D -> sx) (r : ask_result D S) : sx :=
  match r with
  | Done sols noise rounds consumed =>
      SL [SZ 0; enat rounds; enat consumed; elist (eopt es) sols; elist (eopt ed) noise]
  | NeedMore _ _ k => SL [SZ 1; enat k]
  | OutOfFuel _ _ => SL [SZ 2]
  end.

Definition run_C18 (inp : sx) : sx :=
  match inp with
  (* resampling ask: [0 batch flags] *)
  | SL [SZ 0; b; fl] =>
      match dnat b, dlist dbool fl with
      | Some batch, Some flags =>
          eresult enat enat
            (ask (fun d : nat => d) (fun s : nat => nth s flags false) batch (seq 0 (length flags)))
      | _, _ => sx_fail
      end
  (* mirror ask: [1 batch available_draws]; draws are 1..avail, mirrored draws negative *)
  | SL [SZ 1; b; a] =>
      match dnat b, dnat a with
      | Some batch, Some avail =>
          eresult ez ez
            (ask_mirror (fun d : Z => d) Z.opp batch (map (fun k => Z.of_nat (S k)) (seq 0 avail)))
      | _, _ => sx_fail
      end
  (* tell (mean part): [2 kind mean count sols ranking num_parents weights] *)
  | SL [SZ 2; k; m; c; ss; rk; np; ws] =>
      match dnat k, dlist dq m, dnat c, dlist (dlist dq) ss, dlist dnat rk, dnat np, dlist dq ws with
      | Some kind, Some mean, Some count, Some sols, Some ranking, Some nump, Some weights =>
          let s' := tell_mean (if Nat.eqb kind 0 then Evals else Gens) (fun _ => weights)
                              {| d_mean := mean; d_count := count |} sols ranking nump in
          SL [elist eq_ (d_mean s'); enat (d_count s');
              elist enat (select_parents O (seq 0 (length sols)) ranking nump)]
      | _, _, _, _, _, _, _ => sx_fail
      end
  (* OpenAI-ES gradient: [3 mirror batch dim sigma0 noise ranking] *)
  | SL [SZ 3; mi; b; d; s0; nz; rk] =>
      match dbool mi, dnat b, dnat d, dq s0, dlist (dlist dq) nz, dlist dnat rk with
      | Some mirror, Some batch, Some dim, Some sigma0, Some noise, Some ranking =>
          SL [elist eq_ (openai_gradient mirror batch dim sigma0 noise ranking);
              elist (eopt enat) (openai_ranks batch ranking)]
      | _, _, _, _, _, _ => sx_fail
      end
  | _ => sx_fail
  end.
