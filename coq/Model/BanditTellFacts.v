(** Statement-level facts about BanditScheduler.tell that Model/Bandit.v renders ([bandit_tell], [credit], [deliveries] over
    [where_true (active s)]); harness/py2v_bandit.py records which of them the CURRENT source exhibits. *)
From Coq Require Import List.
Import ListNotations.

Inductive bandit_tell_fact :=
  | InsertionIsTheSchedulers      (* the insertion part is the same as Scheduler._add_to_archives          -> add_to_archives *)
  | ActiveEmittersInPoolOrder     (* for i in np.where(self._active_arr)[0]                                 -> where_true (active s) *)
  | CreditedBeforeTold            (* _selection[i] += n; _success[i] += count_nonzero(status slice); then emitter.tell -> credit *)
  | OwnSlices.                    (* the [pos:end] slices of every field and of the feedback               -> deliveries *)

Definition model_bandit_tell_facts : list bandit_tell_fact :=
  [InsertionIsTheSchedulers; ActiveEmittersInPoolOrder; CreditedBeforeTold; OwnSlices].
