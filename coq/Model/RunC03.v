(** Executable runner for the C03 models (exact Grid, CVT brute force / chunked, Sliding index). *)
From Coq Require Import List ZArith QArith Bool.
From PV Require Import Base.MixedRadix Model.Sx Model.Grid Model.CVT Model.SlidingIndex.
Import ListNotations.
Open Scope Z_scope.

Definition dgdim (s : sx) : option gdim :=
  match s with
  | SL [d; lo; hi] =>
      match dz d, dq lo, dq hi with
      | Some dd, Some l, Some h => Some (mkGdim dd l h)
      | _, _, _ => None
      end
  | _ => None
  end.

Definition dsdim (s : sx) : option sdim :=
  match s with
  | SL [d; b; lo; hie] =>
      match dnat d, dlist dq b, dq lo, dq hie with
      | Some dd, Some bb, Some l, Some h => Some (mkSdim dd bb l h)
      | _, _, _, _ => None
      end
  | _ => None
  end.

Definition run_C03 (inp : sx) : sx :=
  match inp with
  (* grid, exact:  (0 eps cfg measures) -> per measure (index  cells  index_of_single  index of the int32-first code) *)
  | SL [SZ 0; e; c; m] =>
      match dq e, dlist dgdim c, dlist (dlist dq) m with
      | Some eps, Some cfg, Some ms =>
          let batch := grid_index_of eps cfg ms in
          SL (map (fun p =>
                     SL [ez (fst p);
                         elist ez (grid_cells grid_idx1 eps cfg (snd p));
                         ez (grid_index_of_single eps cfg (snd p));
                         ez (grid_index_of_one_int32_first eps cfg (snd p))])
                  (combine batch ms))
      | _, _, _ => sx_fail
      end
  (* cvt: (1 centroids chunk measures) -> per measure (argmin  argmin via the chunked path  min squared distance) *)
  | SL [SZ 1; c; k; m] =>
      match dlist (dlist dq) c, dopt dnat k, dlist (dlist dq) m with
      | Some cs, Some chunk, Some ms =>
          let a := cvt_index_of cs ms in
          let b := cvt_index_of_chunked cs chunk ms in
          SL (map (fun p =>
                     let '(i, j, x) := p in
                     SL [enat i; enat j; eq_ (dist2 x (nth i cs []))])
                  (combine (combine a b) ms))
      | _, _, _ => sx_fail
      end
  (* sliding: (2 cfg shifted_measures) -> per measure (index cells) *)
  | SL [SZ 2; c; m] =>
      match dlist dsdim c, dlist (dlist dq) m with
      | Some cfg, Some xs =>
          SL (map (fun x => SL [ez (sb_index_of_one cfg x); elist enat (sb_cells cfg x)]) xs)
      | _, _ => sx_fail
      end
  (* index bijection: (3 dims ints grids) -> (unravel of every int, ravel of every grid index) *)
  | SL [SZ 3; d; i; g] =>
      match dlist dz d, dlist dz i, dlist (dlist dz) g with
      | Some dims, Some ints, Some grids =>
          SL [elist (fun k => elist ez (unravelZ dims k)) ints; elist (fun x => ez (ravelZ dims x)) grids]
      | _, _, _ => sx_fail
      end
  | _ => sx_fail
  end.
