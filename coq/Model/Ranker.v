(** Model of ribs/emitters/rankers.py (executable definitions only).

    Arrays are lists; every finite float is the rational it denotes ([Q]); integer status arrays are
    [list Z] (numpy promotes them to floats inside [np.stack]; 0/1/2 are exact in every float type).

    numpy primitives used by the rankers:
      np.argsort(a)            ascending argsort.  numpy's default introsort leaves the relative order of
                               equal keys unspecified; the model keeps them in original order (stable).
      np.lexsort(keys)         ascending, LAST key primary; numpy sorts stably by each key in turn,
                               from the first key to the last one -- modelled exactly like that.
      np.flip                  [rev]
      np.stack((s, v), -1)     list of pairs; raises ValueError when the lengths differ
      np.dot(measures, dir)    row-wise dot product; raises ValueError on a dimension mismatch

    A ranker object is [{kind; dir; rng}]: [dir] is [_target_measure_dir] ([None] until reset / set),
    [rng] is the not yet consumed part of the stream [self._rng.standard_normal] will produce (the harness
    supplies the draws of [np.random.default_rng(seed)] as exact rationals).
    [archive.compute_density] is external code: a function field of the archive. *)
From Coq Require Import List ZArith QArith Bool Arith.
From PV Require Import Model.Store.
Import ListNotations.
Open Scope Q_scope.

(** * numpy primitives *)
Section StableSort.
Variable K : Type.
Variable le : K -> K -> bool.

(** [l] holds positions sorted by key, [i] stood in front of all of them: it goes before the first
    position whose key is not smaller, i.e. stays in front of equal keys (stability). *)
Fixpoint insert_by (key : nat -> K) (i : nat) (l : list nat) : list nat :=
  match l with
  | [] => [i]
  | j :: t => if le (key i) (key j) then i :: l else j :: insert_by key i t
  end.

Definition stable_sort_by (key : nat -> K) (l : list nat) : list nat :=
  fold_right (insert_by key) [] l.
End StableSort.
Arguments insert_by {K} le key i l.
Arguments stable_sort_by {K} le key l.

Definition getq (a : list Q) (i : nat) : Q := nth i a 0.

Definition argsort (a : list Q) : list nat :=
  stable_sort_by Qle_bool (getq a) (seq 0 (length a)).

Definition lexsort (keys : list (list Q)) (n : nat) : list nat :=
  fold_left (fun perm k => stable_sort_by Qle_bool (getq k) perm) keys (seq 0 n).

Definition flip {A} (l : list A) : list A := rev l.

Fixpoint zipwith {A B C} (f : A -> B -> C) (a : list A) (b : list B) : list C :=
  match a, b with
  | x :: a', y :: b' => f x y :: zipwith f a' b'
  | _, _ => []
  end.

Definition dot (m d : list Q) : Q := fold_right Qplus 0 (zipwith Qmult m d).

(** * data passed to the rankers (column arrays, as in Python) *)
Record archive := mkArchive {
  a_lower : list Q;                                   (* archive.lower_bounds *)
  a_upper : list Q;                                   (* archive.upper_bounds *)
  a_density : option (list (list Q) -> list Q)        (* archive.compute_density, if the archive has one *)
}.
Record data := mkData { d_objective : list Q; d_measures : list (list Q) }.
Record add_info := mkInfo { i_status : list Z; i_value : list Q; i_novelty : list Q }.

(** ranking values: a 1-D array, or the 2-D array [[status_0, key_0], ...] of the two-stage rankers *)
Inductive values := V1 (v : list Q) | V2 (v : list (Q * Q)).

Inductive kind := Imp | TwoImp | RD | TwoRD | Obj | TwoObj | Nov | Density.

Record ranker := mkRanker { r_kind : kind; r_dir : option (list Q); r_rng : list Q }.

Definition new_ranker (k : kind) (stream : list Q) : ranker := mkRanker k None stream.

Definition is_rd (k : kind) : bool := match k with RD | TwoRD => true | _ => false end.

(** * rank *)
(** np.flip(np.argsort(key)), key *)
Definition single_stage (key : list Q) : list nat * values := (flip (argsort key), V1 key).

(** ranking_values = np.stack((status, key), axis=-1);
    np.flip(np.lexsort(np.flip(ranking_values, axis=-1).T)), ranking_values *)
Definition two_stage (status : list Z) (key : list Q) : result (list nat * values) :=
  if Nat.eqb (length status) (length key) then
    let rv := combine (map inject_Z status) key in
    Ok (flip (lexsort [map snd rv; map fst rv] (length rv)), V2 rv)
  else Err ValueError.

Definition projections (measures : list (list Q)) (d : list Q) : result (list Q) :=
  if forallb (fun m => Nat.eqb (length m) (length d)) measures
  then Ok (map (fun m => dot m d) measures) else Err ValueError.

Definition rank (r : ranker) (a : archive) (d : data) (i : add_info) : result (list nat * values) :=
  match r_kind r with
  | Imp => Ok (single_stage (i_value i))
  | TwoImp => two_stage (i_status i) (i_value i)
  | Obj => Ok (single_stage (d_objective d))
  | TwoObj => two_stage (i_status i) (d_objective d)
  | Nov => Ok (single_stage (i_novelty i))
  | RD =>
      match r_dir r with
      | None => Err RuntimeError                      (* "target measure direction not set" *)
      | Some dir => match projections (d_measures d) dir with
                    | Ok p => Ok (single_stage p) | Err e => Err e end
      end
  | TwoRD =>
      match r_dir r with
      | None => Err RuntimeError
      | Some dir => match projections (d_measures d) dir with
                    | Ok p => two_stage (i_status i) p | Err e => Err e end
      end
  | Density =>
      match a_density a with
      | None => Err OtherError                        (* AttributeError *)
      | Some f => let dens := f (d_measures d) in Ok (argsort dens, V1 dens)   (* ascending, no flip *)
      end
  end.

(** * reset / the target_measure_dir setter *)
Definition reset (r : ranker) (a : archive) : result ranker :=
  if is_rd (r_kind r) then
    let ranges := zipwith Qminus (a_upper a) (a_lower a) in
    let measure_dim := length ranges in
    if Nat.ltb (length (r_rng r)) measure_dim then Err OtherError   (* model artefact: supplied stream too short *)
    else Ok (mkRanker (r_kind r)
                      (Some (zipwith Qmult (firstn measure_dim (r_rng r)) ranges))
                      (skipn measure_dim (r_rng r)))
  else Ok r.                                          (* RankerBase.reset: pass *)

Definition set_dir (r : ranker) (d : list Q) : ranker := mkRanker (r_kind r) (Some d) (r_rng r).

(** * histories *)
Inductive op :=
| OReset (a : archive)
| OSetDir (d : list Q)
| ORank (a : archive) (d : data) (i : add_info).

Inductive outcome := OutUnit | OutErr (e : err) | OutRank (idx : list nat) (v : values).

Definition step (r : ranker) (o : op) : ranker * outcome :=
  match o with
  | OReset a => match reset r a with Ok r' => (r', OutUnit) | Err e => (r, OutErr e) end
  | OSetDir d => (set_dir r d, OutUnit)
  | ORank a d i => (r, match rank r a d i with Ok (idx, v) => OutRank idx v | Err e => OutErr e end)
  end.

Fixpoint run (r : ranker) (ops : list op) : ranker * list outcome :=
  match ops with
  | [] => (r, [])
  | o :: t => let '(r', out) := step r o in let '(r'', outs) := run r' t in (r'', out :: outs)
  end.

Definition is_rank (o : op) : bool := match o with ORank _ _ _ => true | _ => false end.
