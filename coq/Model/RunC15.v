(** Executable runner for the SlidingBoundariesArchive model (payload = candidate id in Z). *)
From Coq Require Import List ZArith QArith Bool.
From PV Require Import Base.ListUtil Base.QUtil Base.MixedRadix Model.Store Model.Archive Model.Sliding Model.Sx Model.RunC13
     Model.RunARCH.
Import ListNotations.
Open Scope Z_scope.

Definition dentry (s : sx) : option (entry Z) :=
  match s with
  | SL [m; o; p] => match dlist dq m, dq o, dz p with
                    | Some mm, Some oo, Some pp => Some (mkEntry mm oo pp) | _, _, _ => None end
  | _ => None
  end.

(** cfg = [dims; eps; freq; cap; offset; lo0; hi0; stale] *)
Definition dscfg (s : sx) : option (scfg * bool) :=
  match s with
  | SL [d; e; f; c; o; l; h; st] =>
      match dlist dnat d, dq e, dnat f, dnat c, dq o, dlist dq l, dlist dq h, dbool st with
      | Some dd, Some ee, Some ff, Some cc, Some oo, Some ll, Some hh, Some ss =>
          Some (mkScfg dd ee ff cc oo ll hh, ss)
      | _, _, _, _, _, _, _, _ => None
      end
  | _ => None
  end.

Definition esrow (p : nat * option (row (list Q * Z))) : sx :=
  SL [enat (fst p);
      eopt (fun r : row (list Q * Z) => SL [eq_ (r_obj r); eq_ (r_thr r); ez (snd (r_pay r)); elist eq_ (fst (r_pay r))]) (snd p)].

Definition egeom (g : geom) : sx := SL [elist (elist eq_) (g_bnd g); elist eq_ (g_lo g); elist eq_ (g_hi g)].

Definition esstats (a : archive (list Q * Z)) : sx :=
  let s := a_stats a in
  SL [enat (st_num s); eq_ (st_cov s); eq_ (st_qd s); eq_ (st_norm s); eopt eq_ (st_max s);
      eopt eq_ (st_mean s);
      eopt (fun p : nat * row (list Q * Z) => SL [enat (fst p); eq_ (r_obj (snd p)); eq_ (r_thr (snd p)); ez (snd (r_pay (snd p)))]) (a_best a)].

Definition efb (fb : Z * Q) : sx := SL [ez (fst fb); eq_ (snd fb)].

Definition sl_op (stale : bool) (c : scfg) (st : sstate Z) (o : sx) : sstate Z * sx :=
  match o with
  | SL [SZ 0; l] =>
      match dlist dentry l with
      | Some es => let '(st', fbs) := sadd stale c st es in (st', elist efb fbs)
      | None => (st, sx_fail)
      end
  | SL [SZ 1; x] =>
      match dentry x with
      | Some e => let '(st', fb) := sadd_single stale c st e in (st', efb fb)
      | None => (st, sx_fail)
      end
  | SL [SZ 2] => (sclear c st, SL [])
  | SL [SZ 3] =>
      (st, SL [elist esrow (elites (ss_arch st)); egeom (ss_geom st); esstats (ss_arch st);
               elist (fun e : entry Z => ez (e_pay e)) (ss_buf st); enat (ss_total st)])
  | SL [SZ 4; q] =>
      match dlist (dlist dq) q with
      | Some qq => (st, elist (fun m => enat (sindex (s_eps c) (s_dims c) (ss_geom st) m)) qq)
      | None => (st, sx_fail)
      end
  | SL [SZ 5; q] =>   (* retrieve: cells through the model's index_of, then ArchiveBase.retrieve *)
      match dlist (dlist dq) q with
      | Some qq =>
          (st, elist (fun p : bool * option (nat * row (list Q * Z)) =>
                        SL [ebool (fst p); eopt (fun ir : nat * row (list Q * Z) => esrow (fst ir, Some (snd ir))) (snd p)])
                     (retrieve_cells (ss_arch st) (map (sindex (s_eps c) (s_dims c) (ss_geom st)) qq)))
      | None => (st, sx_fail)
      end
  | SL [SZ 6; k] =>   (* sample_elites with the generator's integers *)
      match dlist dnat k with
      | Some kk => (st, eres (elist esrow) (sample (ss_arch st) kk))
      | None => (st, sx_fail)
      end
  | _ => (st, sx_fail)
  end.

Fixpoint sl_ops (stale : bool) (c : scfg) (st : sstate Z) (ops : list sx) : list sx :=
  match ops with
  | [] => []
  | o :: t => let '(st', out) := sl_op stale c st o in out :: sl_ops stale c st' t
  end.

Definition run_C15 (inp : sx) : sx :=
  match inp with
  | SL [c; SL ops] =>
      match dscfg c with
      | Some (cc, stale) => SL (sl_ops stale cc (sinit Z cc) ops)
      | None => sx_fail
      end
  | _ => sx_fail
  end.
