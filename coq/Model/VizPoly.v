(** Model of the bookkeeping of cvt_archive_heatmap (2-D): the loop "for region, objective in zip(vor.regions, region_obj)" that
    builds FOUR parallel lists -- the polygons handed to PolyCollection ([vertices]), one face colour per polygon ([facecolors]),
    the mask of the colours that are to be computed from the colour map ([facecolor_cmap_mask]) and the objectives to be mapped
    ([facecolor_objs]) -- followed by [facecolors[facecolor_cmap_mask] = cmap(normalized_objs)].

    WHAT a region's polygon looks like is scipy / Qhull / shapely output (not modelled: checked geometrically by the harness);
    modelled here is HOW MANY polygons and colours each region contributes and in which order, because matplotlib does not
    complain when the two lists fall out of step: PolyCollection cycles through a shorter colour list, and every polygon after a
    region that was split by the clip polygon would silently take a neighbour's colour.

    The loop body is a program in a small statement language; harness/py2v_viz.py translates the CURRENT source into such a
    program (Generated/VizPolyGen.v) and Refine/VizPolyRefine.v shows it equal to [model_body] below. *)
From Coq Require Import List Arith Bool QArith Lia.
Import ListNotations.

Inductive count := COne | CGeoms.   (* 1 | len(intersection.geoms) *)

Inductive act :=
  | AVert                (* vertices.append(<one polygon>) *)
  | AFaceBlank           (* facecolors.append(np.array([1.0, 1.0, 1.0, 0.0])): transparent white, an empty cell *)
  | AFaceEmpty           (* facecolors.append(np.empty(4)): to be filled in from the colour map *)
  | AMask (b : bool)     (* facecolor_cmap_mask.append(b) *)
  | AObj.                (* facecolor_objs.append(objective) *)

Inductive stmt :=
  | SNop
  | SSeq (a b : stmt)
  | SAct (a : act)
  | SIfClip (t e : stmt)          (* if clip: *)
  | SIfMulti (t e : stmt)         (* if isinstance(intersection, shapely.MultiPolygon): *)
  | SIfNone (t e : stmt)          (* if objective is None: *)
  | SForGeoms (b : stmt)          (* for polygon in intersection.geoms: *)
  | SSetSplits (c : count)        (* n_splits = 1 | len(intersection.geoms) *)
  | SForSplits (b : stmt).        (* for _ in range(n_splits): *)

(** what the loop sees of one Voronoi region *)
Record region := mkRegion {
  r_skip : bool;          (* -1 in region or len(region) == 0: the region is not drawn *)
  r_multi : bool;         (* the intersection with the clip polygon is a MultiPolygon ... *)
  r_k : nat;              (* ... of this many parts *)
  r_obj : option Q }.     (* region_obj[...]: None = no elite in that cell *)

Inductive face := FBlank | FEmpty | FMap (o : option Q).

Record st := mkSt {
  verts : list nat;             (* one entry per polygon: the id of the region it is a piece of *)
  faces : list face;
  mask : list bool;
  objs : list (option Q);
  nsplits : nat }.

Definition st0 : st := mkSt [] [] [] [] 0.

Definition do_act (rid : nat) (r : region) (a : act) (s : st) : st :=
  match a with
  | AVert => mkSt (verts s ++ [rid]) (faces s) (mask s) (objs s) (nsplits s)
  | AFaceBlank => mkSt (verts s) (faces s ++ [FBlank]) (mask s) (objs s) (nsplits s)
  | AFaceEmpty => mkSt (verts s) (faces s ++ [FEmpty]) (mask s) (objs s) (nsplits s)
  | AMask b => mkSt (verts s) (faces s) (mask s ++ [b]) (objs s) (nsplits s)
  | AObj => mkSt (verts s) (faces s) (mask s) (objs s ++ [r_obj r]) (nsplits s)
  end.

Definition count_val (r : region) (c : count) : nat := match c with COne => 1 | CGeoms => r_k r end.

Definition is_none {A} (o : option A) : bool := match o with None => true | Some _ => false end.

Fixpoint exec (clip : bool) (rid : nat) (r : region) (p : stmt) (s : st) : st :=
  match p with
  | SNop => s
  | SSeq a b => exec clip rid r b (exec clip rid r a s)
  | SAct a => do_act rid r a s
  | SIfClip t e => if clip then exec clip rid r t s else exec clip rid r e s
  | SIfMulti t e => if r_multi r then exec clip rid r t s else exec clip rid r e s
  | SIfNone t e => if is_none (r_obj r) then exec clip rid r t s else exec clip rid r e s
  | SForGeoms b => Nat.iter (r_k r) (exec clip rid r b) s
  | SSetSplits c => mkSt (verts s) (faces s) (mask s) (objs s) (count_val r c)
  | SForSplits b => Nat.iter (nsplits s) (exec clip rid r b) s
  end.

(** the whole loop: regions in order, each with its id; [if -1 in region or len(region) == 0: continue] *)
Fixpoint run (clip : bool) (body : stmt) (irs : list (nat * region)) (s : st) : st :=
  match irs with
  | [] => s
  | (rid, r) :: t => run clip body t (if r_skip r then s else exec clip rid r body s)
  end.

(** facecolors[facecolor_cmap_mask] = cmap(normalized_objs): numpy raises unless the mask has one entry per colour and exactly as
    many True entries as there are values *)
Fixpoint fill (fs : list face) (ms : list bool) (os : list (option Q)) : option (list face) :=
  match fs, ms with
  | [], [] => match os with [] => Some [] | _ => None end
  | f :: fs', true :: ms' =>
      match os with
      | o :: os' => option_map (cons (FMap o)) (fill fs' ms' os')
      | [] => None
      end
  | f :: fs', false :: ms' => option_map (cons f) (fill fs' ms' os)
  | _, _ => None
  end.

(** the loop body as written in ribs/visualize/_cvt_archive_heatmap.py *)
Definition model_body : stmt :=
  SSeq
    (SIfClip
       (SIfMulti
          (SSeq (SForGeoms (SAct AVert)) (SSetSplits CGeoms))
          (SSeq (SAct AVert) (SSetSplits COne)))
       (SSeq (SAct AVert) (SSetSplits COne)))
    (SForSplits
       (SIfNone
          (SSeq (SAct AFaceBlank) (SAct (AMask false)))
          (SSeq (SAct AFaceEmpty) (SSeq (SAct (AMask true)) (SAct AObj))))).

(** the picture: polygons (tagged with their region) and the colours PolyCollection receives *)
Definition picture (clip : bool) (body : stmt) (regions : list region) : option (list nat * list face) :=
  let s := run clip body (combine (seq 0 (length regions)) regions) st0 in
  option_map (fun fs => (verts s, fs)) (fill (faces s) (mask s) (objs s)).

(** the colour a piece of a region must have *)
Definition colour_of (o : option Q) : face := match o with None => FBlank | Some v => FMap (Some v) end.

(** number of polygons a drawn region contributes *)
Definition pieces (clip : bool) (r : region) : nat := if clip then (if r_multi r then r_k r else 1) else 1.
