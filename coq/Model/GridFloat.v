(** Bit-exact model of GridArchive.index_of in IEEE binary64 (Coq primitive floats), in numpy's
    actual operation and promotion order.  NOT extracted: evaluated inside Coq with [vm_compute] on
    case files the harness generates (near-boundary inputs, where the exact model over Q and the
    floating-point implementation may legitimately differ).

    Python:  ((dims * (measures - lower_bounds) + epsilon) / interval_size).astype(int32); clip
    with interval_size = upper_bounds - lower_bounds computed once in the archive's dtype.

    dtype handling (observed with numpy 2.x, see harness/c03.py [promotion_probe]):
      float64 archive                      : every operation in binary64;
      float32 archive, float32 measures    : measures - lower in binary32, dims(int32) * float32 array
                                             promotes to float64, the rest in binary64;
      float32 archive, float64 measures    : every operation in binary64 on the float32-valued
                                             lower/epsilon/interval_size;
      interval_size of a float32 archive   : upper - lower in binary32.
    binary32 subtraction = SpecFloat.SFsub with prec 24, emax 128 (one rounding of the exact result).

    Two casts: [idx_f_clip_first] is the intended/repaired behaviour (clip to [0, d-1] in floating
    point, then cast); [idx_f_int32_first] is the pre-fix code (before fixes/F1.patch; cast to int32 first: truncation,
    out-of-range and non-finite -> -2^31 as observed on x86-64; then integer clip). *)
From Coq Require Import List ZArith PrimFloat Uint63 FloatOps SpecFloat Bool.
Import ListNotations.
Open Scope Z_scope.

(** m * 2^e, exact when |m| < 2^53 and the result is representable (how the harness ships floats) *)
Definition mkf (m e : Z) : float :=
  let a := Z.ldexp (of_uint63 (of_Z (Z.abs m))) e in
  if m <? 0 then (- a)%float else a.

Definition sub32 (a b : float) : float := SF2Prim (SFsub 24 128 (Prim2SF a) (Prim2SF b)).
Definition sub64 (a b : float) : float := (a - b)%float.

(** truncation toward zero of a finite float; None for nan / infinities *)
Definition ftrunc (x : float) : option Z :=
  match Prim2SF x with
  | S754_zero _ => Some 0
  | S754_finite s m e =>
      let mag := if 0 <=? e then Zpos m * 2 ^ e else Zpos m / 2 ^ (- e) in
      Some (if s then - mag else mag)
  | _ => None
  end.

Definition fcast_int32 (x : float) : Z :=
  match ftrunc x with
  | Some t => if (-2147483648 <=? t) && (t <=? 2147483647) then t else -2147483648
  | None => -2147483648
  end.

Definition clipZ (lo hi x : Z) : Z := Z.min (Z.max x lo) hi.

(** np.clip on floats = minimum(maximum(x, lo), hi); NaN propagates *)
Definition fclip (lo hi x : float) : float :=
  if PrimFloat.is_nan x then x else
  let y := if PrimFloat.ltb x lo then lo else x in
  if PrimFloat.ltb hi y then hi else y.

Definition fraw (sub : float -> float -> float) (d : Z) (lo eps w m : float) : float :=
  let df := of_uint63 (of_Z d) in
  (((df * (sub m lo)) + eps) / w)%float.

Definition idx_f_int32_first sub (d : Z) (lo eps w m : float) : Z :=
  clipZ 0 (d - 1) (fcast_int32 (fraw sub d lo eps w m)).

Definition idx_f_clip_first sub (d : Z) (lo eps w m : float) : Z :=
  fcast_int32 (fclip PrimFloat.zero (of_uint63 (of_Z (d - 1))) (fraw sub d lo eps w m)).

(** one generated case: mode 0 = all binary64, 1 = float32 archive with float32 measures;
    [lo], [hi], [eps], [m] as (mantissa, exponent) pairs.  Result: both indices. *)
Definition run_case (mode d lom loe him hie epm epe mm me : Z) : list Z :=
  let lo := mkf lom loe in let hi := mkf him hie in let eps := mkf epm epe in let m := mkf mm me in
  let sub := if mode =? 1 then sub32 else sub64 in
  let w := if mode =? 0 then sub64 hi lo else sub32 hi lo in
  [idx_f_clip_first sub d lo eps w m; idx_f_int32_first sub d lo eps w m].
