(** Statement-level facts about Scheduler._add_to_archives / tell / tell_dqd that Model/Scheduler.v renders ([add_to_archives],
    [single_loop], [deliveries]); harness/py2v_sched.py records which of them the CURRENT source exhibits. *)
From Coq Require Import List.
Import ListNotations.

Inductive sched_fact :=
  | BatchSearchArchiveThenResultSameData   (* archive.add(data); then result_archive.add(data)             -> add_to_archives Batch: one AddBatch event appended to both logs *)
  | SingleRowByRowSearchThenResult         (* for i: archive.add_single(row i); result_archive.add_single(row i) -> single_loop *)
  | FeedbackIsSearchArchives               (* add_info comes from the search archive only                         -> the [fb] oracle, one row per solution *)
  | TellValidatesInsertsThenRoutes         (* validate; _add_to_archives; only then emitter.tell(...)             -> tell_gen *)
  | EmittersInPoolOrderGetOwnSlices.       (* zip(emitters, num_emitted): arr[pos:end] of every field / feedback -> deliveries *)

Definition model_sched_facts : list sched_fact :=
  [BatchSearchArchiveThenResultSameData; SingleRowByRowSearchThenResult; FeedbackIsSearchArchives; TellValidatesInsertsThenRoutes;
   EmittersInPoolOrderGetOwnSlices].
