(** The collaborator calls of GradientArborescenceEmitter.tell, in the order Model/DQD.v's [gae_tell] logs them; harness/py2v_dqd.py
    records the order the CURRENT source has (Generated/DqdGen.v: [gen_tell_phases]), Refine/DqdRefine.v compares. *)
From Coq Require Import List.
Import ListNotations.

Inductive gae_phase :=
  | PhOptTell                 (* self._opt.tell(indices, ranking_values, num_parents)                       -> GOptTell *)
  | PhStepIfParents           (* if <num_parents selected>: self._grad_opt.step(new_mean - theta)           -> GStep *)
  | PhRestartIfStopOrRule.    (* if check_stop(...) or _check_restart(new_sols): sample_elites(1); grad_opt.reset(elite);
                                 opt.reset(zeros); ranker.reset; restarts += 1          -> GSample 1; GGradReset; GOptReset0; GRankerReset *)

Definition model_tell_phases : list gae_phase := [PhOptTell; PhStepIfParents; PhRestartIfStopOrRule].
