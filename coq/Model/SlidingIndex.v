(** Model of ribs/archives/_sliding_boundaries_archive.py : SlidingBoundariesArchive.index_of,
    over exact rationals.

    Python:
        measures = np.clip(measures + epsilon, lower_bounds, upper_bounds - epsilon)
        for boundary, dim, col in zip(boundaries, dims, measures.T):
            idx_col = np.searchsorted(boundary[:dim], col)        # side="left"
            idx_cols.append(np.maximum(0, idx_col - 1))
        return np.ravel_multi_index(idx_cols, dims)

    The two additions ([m + eps], [upper - eps]) are single floating-point operations; everything after
    them only compares.  [sb_idx1_x] therefore takes the shifted coordinate [x] and the shifted upper
    bound [hi_e] as inputs (the harness supplies the correctly rounded sums, computed from exact
    rationals, independently of the implementation), and [sb_idx1] is the exact-arithmetic
    composition used when both additions are exact.

    Definitions only; proofs are in Proofs/SlidingIndexProofs.v. *)
From Coq Require Import List Arith ZArith QArith Qminmax Bool.
From PV Require Import Base.MixedRadix Model.Grid.
Import ListNotations.
Open Scope Q_scope.

(** np.searchsorted(a, x, side="left") on a sorted array: number of leading elements < x *)
Fixpoint searchsorted_left (a : list Q) (x : Q) : nat :=
  match a with
  | [] => O
  | y :: t => if Qle_bool x y then O else S (searchsorted_left t x)
  end.

(** one dimension; [b] = boundaries[i] (at least d+1 entries), [x] = m + eps, [hi_e] = upper - eps *)
Definition sb_idx1_x (d : nat) (b : list Q) (lo hi_e x : Q) : nat :=
  Nat.max 0 (searchsorted_left (firstn d b) (clipQ lo hi_e x) - 1).

Definition sb_idx1 (d : nat) (b : list Q) (lo hi eps m : Q) : nat :=
  sb_idx1_x d b lo (hi - eps) (m + eps).

(** non-strictly sorted (remaps produce repeated boundaries) *)
Fixpoint sortedQ (a : list Q) : Prop :=
  match a with
  | [] => True
  | x :: t => match t with [] => True | y :: _ => x <= y end /\ sortedQ t
  end.

(** * all dimensions *)
Record sdim := mkSdim { sd : nat; sbnd : list Q; slo : Q; shi_e : Q }.

Fixpoint sb_cells (cfg : list sdim) (x : list Q) : list nat :=
  match cfg, x with
  | c :: ct, v :: xt => sb_idx1_x (sd c) (sbnd c) (slo c) (shi_e c) v :: sb_cells ct xt
  | _, _ => []
  end.

Definition sb_dims (cfg : list sdim) : list Z := map (fun c => Z.of_nat (sd c)) cfg.

Definition sb_index_of_one (cfg : list sdim) (x : list Q) : Z :=
  ravelZ (sb_dims cfg) (map Z.of_nat (sb_cells cfg x)).

Definition sb_index_of (cfg : list sdim) (xs : list (list Q)) : list Z := map (sb_index_of_one cfg) xs.
