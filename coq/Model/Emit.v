(** Model of the emitters' [ask] / [ask_dqd] paths (executable definitions only, no proofs).

    ribs/emitters/_emitter_base.py            : EmitterBase._process_bounds
    ribs/emitters/operators/_gaussian.py      : GaussianOperator.ask
    ribs/emitters/operators/_iso_line.py      : IsoLineOperator.ask
    ribs/emitters/_gaussian_emitter.py, _iso_line_emitter.py, _genetic_algorithm_emitter.py : ask
    ribs/emitters/_gradient_operator_emitter.py     : ask_dqd, ask
    ribs/emitters/_gradient_arborescence_emitter.py : ask
    ribs/emitters/opt/_cma_es.py, _sep_cma_es.py, _lm_ma_es.py, _openai_es.py : the
        resample-until-in-bounds loop of ask()
    plus numpy's result-type rule for the operations involved (dtype of what ask returns).

    Numbers are exact rationals ([Q]; every finite float is one).  A bound is [option Q]: [None] is
    the -inf / +inf that _process_bounds stores for "no bound".  Randomness is an INPUT: the integers
    that [Generator.integers(len, size=n)] returned ([ints k] = k-th integer), the normal draws
    ([z i j] = entry (i, j) of the array returned by [Generator.normal(size=(b, d))], after astype),
    and for the evolution strategies the stream of candidate rows (= transform(draw), in draw
    order).  Where the unchanged code violates property C08 (F12: bounds kept in the measures dtype,
    DQD outputs not cast; GradientOperatorEmitter.ask not clipped; ask_dqd with iso_line_dd on an
    empty archive) the model follows the PROPERTY; the dtype model carries both policies. *)
From Coq Require Import List ZArith QArith Qabs Bool Arith.
From PV Require Import Base.ListUtil Model.Store.
Import ListNotations.
Open Scope Q_scope.

Definition ebound := option Q.
Definition row := list Q.
Definition matrix := list row.

(** * Generic helpers *)
Fixpoint map2 {A B C} (f : A -> B -> C) (l1 : list A) (l2 : list B) : list C :=
  match l1, l2 with
  | a :: t1, b :: t2 => f a b :: map2 f t1 t2
  | _, _ => []
  end.

(** [tabulate n f] = [f 0; ...; f (n-1)]: an array of n entries filled from a draw function *)
Definition tabulate {A} (n : nat) (f : nat -> A) : list A := map f (seq 0 n).

Definition vadd (a b : row) : row := map2 Qplus a b.
Definition vsub (a b : row) : row := map2 Qminus a b.
Definition vscale (g : Q) (a : row) : row := map (Qmult g) a.

(** * EmitterBase._process_bounds
    [bounds] is None or an array-like with one entry per dimension; an entry is None or a sequence
    that must have length 2, whose members may be None. *)
Definition bentry := option (list (option Q)).

Definition process_entry (b : bentry) : result (ebound * ebound) :=
  match b with
  | None => Ok (None, None)                 (* bounds already default to -inf and inf *)
  | Some [l; h] => Ok (l, h)
  | Some _ => Err ValueError                (* "All entries of bounds must be length 2" *)
  end.

Fixpoint process_entries (bs : list bentry) : result (list ebound * list ebound) :=
  match bs with
  | [] => Ok ([], [])
  | b :: t =>
      match process_entry b with
      | Err e => Err e
      | Ok (l, h) =>
          match process_entries t with
          | Err e => Err e
          | Ok (ls, hs) => Ok (l :: ls, h :: hs)
          end
      end
  end.

Definition process_bounds (bounds : option (list bentry)) (dim : nat)
  : result (list ebound * list ebound) :=
  match bounds with
  | None => Ok (repeat None dim, repeat None dim)
  | Some bs => if Nat.eqb (length bs) dim then process_entries bs else Err ValueError
  end.

(** * np.clip(x, lo, hi) = minimum(maximum(x, lo), hi), element-wise with per-dimension bounds *)
(* both keep [a] when the values are equal, so that an in-bounds value is returned unchanged *)
Definition qmax (a b : Q) : Q := if Qle_bool b a then a else b.
Definition qmin (a b : Q) : Q := if Qle_bool a b then a else b.
Definition clip_lo (x : Q) (lo : ebound) : Q := match lo with None => x | Some l => qmax x l end.
Definition clip_hi (x : Q) (hi : ebound) : Q := match hi with None => x | Some h => qmin x h end.
Definition clip (x : Q) (lo hi : ebound) : Q := clip_hi (clip_lo x lo) hi.

Fixpoint clip_row (r : row) (lo hi : list ebound) : row :=
  match r, lo, hi with
  | x :: t, l :: lt, h :: ht => clip x l h :: clip_row t lt ht
  | _, _, _ => []
  end.
Definition clip_matrix (m : matrix) (lo hi : list ebound) : matrix :=
  map (fun r => clip_row r lo hi) m.

(** the test the evolution strategies use: [solutions < lower_bounds or solutions > upper_bounds] *)
Definition oob (x : Q) (lo hi : ebound) : bool :=
  (match lo with None => false | Some l => negb (Qle_bool l x) end) ||
  (match hi with None => false | Some h => negb (Qle_bool x h) end).
Fixpoint row_oob (r : row) (lo hi : list ebound) : bool :=
  match r, lo, hi with
  | x :: t, l :: lt, h :: ht => oob x l h || row_oob t lt ht
  | _, _, _ => false
  end.

(** * Specification predicates (what C08 states about an output) *)
Definition ge_lo (x : Q) (lo : ebound) : Prop := match lo with None => True | Some l => l <= x end.
Definition le_hi (x : Q) (hi : ebound) : Prop := match hi with None => True | Some h => x <= h end.
Definition in_bounds (x : Q) (lo hi : ebound) : Prop := ge_lo x lo /\ le_hi x hi.
(** every coordinate inside the emitter's bounds *)
Definition row_in_bounds (lo hi : list ebound) (r : row) : Prop :=
  forall j, (j < length r)%nat -> in_bounds (nth j r 0) (nth j lo None) (nth j hi None).
(** lower_bounds <= upper_bounds in every dimension *)
Definition bounds_ok (lo hi : list ebound) : Prop :=
  forall j, match nth j lo None, nth j hi None with Some l, Some h => l <= h | _, _ => True end.
(** shape (n, d) *)
Definition has_shape (n d : nat) (m : matrix) : Prop :=
  length m = n /\ Forall (fun r => length r = d) m.
(** equality of float values (Q is a setoid) *)
Definition req (a b : row) : Prop := Forall2 Qeq a b.
Definition meq (a b : matrix) : Prop := Forall2 req a b.

(** * Emitter configuration (after the constructor ran) *)
Record ecfg := mkCfg {
  e_batch : nat;                 (* batch_size *)
  e_dim : nat;                   (* solution_dim *)
  e_x0 : row;                    (* x0 (unused when initial_solutions is given) *)
  e_init : option matrix;        (* initial_solutions *)
  e_lo : list ebound;            (* lower_bounds *)
  e_hi : list ebound             (* upper_bounds *)
}.

(** [archive.sample_elites(n)["solution"]] : rows of the occupied list (in occupied_list order)
    indexed by the random integers; IndexError on an empty archive. *)
Definition sample_elites (elites : matrix) (n : nat) (ints : nat -> nat) : result matrix :=
  match elites with
  | [] => Err IndexError
  | _ => Ok (tabulate n (fun k => nth (ints k) elites []))
  end.

(** parents: [np.repeat(x0[None], n)] while the archive is empty, sampled elites otherwise *)
Definition parents_of (c : ecfg) (elites : matrix) (n : nat) (ints : nat -> nat) : matrix :=
  match sample_elites elites n ints with
  | Err _ => repeat (e_x0 c) n
  | Ok ps => ps
  end.

Definition draw_matrix (b d : nat) (z : nat -> nat -> Q) : matrix :=
  tabulate b (fun i => tabulate d (z i)).

(** * Operators *)
(** GaussianOperator.ask: [np.clip(parents + noise, lower, upper)] *)
Definition gaussian_op (lo hi : list ebound) (parents noise : matrix) : matrix :=
  clip_matrix (map2 vadd parents noise) lo hi.

(** IsoLineOperator.ask: elites = parents[0]; directions = parents[1] - parents[0];
    [np.clip(elites + iso_gaussian + line_gaussian * directions, lower, upper)] *)
Definition isoline_row (e p1 iso : row) (g : Q) : row :=
  vadd (vadd e iso) (vscale g (vsub p1 e)).
Fixpoint isoline_rows (p0 p1 iso : matrix) (line : list Q) : matrix :=
  match p0, p1, iso, line with
  | e :: t0, q :: t1, n :: tn, g :: tg => isoline_row e q n g :: isoline_rows t0 t1 tn tg
  | _, _, _, _ => []
  end.
Definition isoline_op (lo hi : list ebound) (p0 p1 iso : matrix) (line : list Q) : matrix :=
  clip_matrix (isoline_rows p0 p1 iso line) lo hi.

(** * GaussianEmitter.ask *)
Definition gaussian_ask (c : ecfg) (elites : matrix) (ints : nat -> nat) (z : nat -> nat -> Q)
  : matrix :=
  match elites, e_init c with
  | [], Some ini => clip_matrix ini (e_lo c) (e_hi c)
  | _, _ => gaussian_op (e_lo c) (e_hi c) (parents_of c elites (e_batch c) ints)
                        (draw_matrix (e_batch c) (e_dim c) z)
  end.

(** * IsoLineEmitter.ask : 2*batch parents, reshape(2, batch, -1) *)
Definition isoline_ask (c : ecfg) (elites : matrix) (ints : nat -> nat)
           (iso : nat -> nat -> Q) (line : nat -> Q) : matrix :=
  match elites, e_init c with
  | [], Some ini => clip_matrix ini (e_lo c) (e_hi c)
  | _, _ =>
      let ps := parents_of c elites (2 * e_batch c) ints in
      isoline_op (e_lo c) (e_hi c) (firstn (e_batch c) ps) (skipn (e_batch c) ps)
                 (draw_matrix (e_batch c) (e_dim c) iso) (tabulate (e_batch c) line)
  end.

(** * GeneticAlgorithmEmitter.ask : dispatch on operator.parent_type *)
Inductive operator := OpGaussian | OpIsoLine.
Definition parent_type (o : operator) : nat := match o with OpGaussian => 1 | OpIsoLine => 2 end.

Definition ga_ask (c : ecfg) (o : operator) (elites : matrix) (ints : nat -> nat)
           (z : nat -> nat -> Q) (line : nat -> Q) : matrix :=
  match elites, e_init c with
  | [], Some ini => clip_matrix ini (e_lo c) (e_hi c)
  | _, _ =>
      if Nat.eqb (parent_type o) 2 then
        let ps := parents_of c elites (2 * e_batch c) ints in
        isoline_op (e_lo c) (e_hi c) (firstn (e_batch c) ps) (skipn (e_batch c) ps)
                   (draw_matrix (e_batch c) (e_dim c) z) (tabulate (e_batch c) line)
      else
        gaussian_op (e_lo c) (e_hi c) (parents_of c elites (e_batch c) ints)
                    (draw_matrix (e_batch c) (e_dim c) z)
  end.

(** * GradientOperatorEmitter *)
(** ask_dqd: no solutions while the archive is empty and initial_solutions is set; otherwise
    parents (x0[None] broadcast against the (batch, dim) noise, or sampled elites) perturbed by
    the isotropic noise, plus, for 'iso_line_dd', line_gaussian * (second sample - parents).
    The second sample uses the next [batch] integers of the archive's generator.  (On an empty
    archive the unchanged code raises IndexError there; the model takes x0 again, as IsoLineEmitter
    does, i.e. direction 0.) *)
Fixpoint dqd_line_rows (ps others noise : matrix) (line : list Q) : matrix :=
  match ps, others, noise, line with
  | p :: tp, o :: to, n :: tn, g :: tg =>
      vadd (vadd p (vscale g (vsub o p))) n :: dqd_line_rows tp to tn tg
  | _, _, _, _ => []
  end.

Definition go_ask_dqd (c : ecfg) (isolinedd : bool) (elites : matrix) (ints : nat -> nat)
           (z : nat -> nat -> Q) (line : nat -> Q) : matrix :=
  match elites, e_init c with
  | [], Some _ => []
  | _, _ =>
      let b := e_batch c in
      let parents := parents_of c elites b ints in
      let noise := draw_matrix b (e_dim c) z in
      if isolinedd then
        let others := parents_of c elites b (fun k => ints (b + k)%nat) in
        clip_matrix (dqd_line_rows parents others noise (tabulate b line)) (e_lo c) (e_hi c)
      else clip_matrix (map2 vadd parents noise) (e_lo c) (e_hi c)
  end.

(** linear combination  sum_j coeffs[j] * jac[j]  of the rows of a (1+m) x dim Jacobian
    ([np.sum(jacobian * coeffs[:, None], axis=0)]), starting from [base] *)
Fixpoint lincomb (base : row) (coeffs : list Q) (jac : matrix) : row :=
  match coeffs, jac with
  | g :: tc, r :: tj => lincomb (vadd base (vscale g r)) tc tj
  | _, _ => base
  end.
Definition zero_row (d : nat) : row := repeat 0 d.

(** ask: [parents] = what ask_dqd returned, [jac] = self._jacobian_batch (None before tell_dqd).
    measure_gradients: coefficients drawn per solution, the objective coefficient made
    non-negative; otherwise the objective gradient times sigma_g.  The result is clipped to the
    bounds (C08; the unchanged code returns it unclipped, and returns initial_solutions raw). *)
Definition go_coeffs (b m1 : nat) (z : nat -> nat -> Q) : matrix :=
  tabulate b (fun i => tabulate m1 (fun j => if Nat.eqb j 0 then Qabs (z i j) else z i j)).

Definition go_ask (c : ecfg) (mg : bool) (elites : matrix) (parents : matrix)
           (jac : option (list matrix)) (sigma_g : Q) (m1 : nat) (z : nat -> nat -> Q)
  : result matrix :=
  match elites, e_init c with
  | [], Some ini => Ok (clip_matrix ini (e_lo c) (e_hi c))
  | _, _ =>
      match jac with
      | None => Err RuntimeError
      | Some J =>
          let sols :=
            if mg then
              map2 (fun pj cf => vadd (lincomb (zero_row (e_dim c)) cf (snd pj)) (fst pj))
                   (combine parents J) (go_coeffs (length J) m1 z)
            else
              map2 (fun p Ji => vadd p (vscale sigma_g (hd [] Ji))) parents J in
          Ok (clip_matrix sols (e_lo c) (e_hi c))
      end
  end.

(** * GradientArborescenceEmitter.ask : theta + sum_j coeffs[i][j] * jacobian[0][j]
    (bounds are not supported by this emitter: always (-inf, inf)) *)
Definition gae_ask (theta : row) (jac : matrix) (coeffs : matrix) : matrix :=
  map (fun cf => vadd theta (lincomb (zero_row (length theta)) cf jac)) coeffs.

(** * The resample-until-in-bounds loop of the evolution strategies' ask()
    [stream]: the candidate rows (= transform(draw)) in the order the generator produces them.
    Each round takes [len(remaining_indices)] candidates, stores candidate j in slot
    remaining_indices[j], and keeps the slots whose candidate has a coordinate out of bounds.
    A slot is (row, position of that row in the stream). *)
Inductive rs_result :=
| RsDone (rows : matrix) (picks : list nat) (used : nat)   (* used = candidates consumed *)
| RsNeed (k : nat)          (* the finite stream ran out: k more candidates are needed *)
| RsFuel.                   (* out of fuel (the Python loop has no bound) *)

Fixpoint write_slots (sols : list (row * nat)) (idx : list nat) (cand : list (row * nat))
  : list (row * nat) :=
  match idx, cand with
  | i :: ti, x :: tc => write_slots (upd sols i x) ti tc
  | _, _ => sols
  end.

Fixpoint still_oob (lo hi : list ebound) (idx : list nat) (cand : matrix) : list nat :=
  match idx, cand with
  | i :: ti, x :: tc => if row_oob x lo hi then i :: still_oob lo hi ti tc else still_oob lo hi ti tc
  | _, _ => []
  end.

Fixpoint resample (fuel : nat) (lo hi : list ebound) (stream : matrix) (pos : nat)
         (sols : list (row * nat)) (remaining : list nat) : rs_result :=
  match remaining with
  | [] => RsDone (map fst sols) (map snd sols) pos
  | _ :: _ =>
      match fuel with
      | O => RsFuel
      | S f =>
          let k := length remaining in
          if Nat.ltb (length stream) k then RsNeed k
          else
            let cand := firstn k stream in
            resample f lo hi (skipn k stream) (pos + k)
                     (write_slots sols remaining (combine cand (seq pos k)))
                     (still_oob lo hi remaining cand)
      end
  end.

Definition es_ask (fuel : nat) (lo hi : list ebound) (batch : nat) (stream : matrix) : rs_result :=
  match batch with
  | O => RsDone [] [] 0
  | _ => resample fuel lo hi stream 0 (repeat ([], O) batch) (seq 0 batch)
  end.

(** * dtype of what ask()/ask_dqd() return: numpy's result-type rule over {float32, float64} *)
Inductive dt := F32 | F64.
Definition dt_eqb (a b : dt) : bool :=
  match a, b with F32, F32 | F64, F64 => true | _, _ => false end.
(** array (+) array, and array (+) numpy scalar (numpy 2 / NEP 50: numpy scalars are strongly typed) *)
Definition promote (a b : dt) : dt := match a, b with F32, F32 => F32 | _, _ => F64 end.
(** array (+) python float: the python scalar is weakly typed *)
Definition promote_weak (a : dt) : dt := a.
Definition astype (target : dt) (_ : dt) : dt := target.

Inductive es_kind := CmaEs | SepCmaEs | LmMaEs | OpenAiEs | PyCmaEs.

Inductive akind :=
| KGaussian (init_path : bool)           (* GaussianEmitter.ask *)
| KIsoLine (init_path : bool)            (* IsoLineEmitter.ask *)
| KGA (o : operator) (init_path : bool)  (* GeneticAlgorithmEmitter.ask *)
| KES (e : es_kind)                      (* EvolutionStrategyEmitter.ask *)
| KGoDqd (isolinedd : bool) (init_path : bool)   (* GradientOperatorEmitter.ask_dqd *)
| KGoAsk (mg : bool) (init_path : bool)          (* GradientOperatorEmitter.ask *)
| KGaeDqd                                (* GradientArborescenceEmitter.ask_dqd *)
| KGaeAsk (e : es_kind).                 (* GradientArborescenceEmitter.ask *)

(** [fixed = true]: the intended behaviour (bounds in the solution dtype, DQD outputs cast);
    [fixed = false]: the unchanged code (bounds in the MEASURES dtype, no casts) -- finding F12. *)
Definition bounds_dt (fixed : bool) (sd md : dt) : dt := if fixed then sd else md.
Definition cast_out (fixed : bool) (sd : dt) (x : dt) : dt := if fixed then astype sd x else x.

Definition es_out_dtype (e : es_kind) (sd : dt) : dt :=
  match e with
  | PyCmaEs => astype sd F64                     (* np.asarray(es.ask()).astype(self.dtype) *)
  | _ => sd                                      (* np.empty(..., dtype=self.dtype), rows assigned into it *)
  end.

(** [sd] = archive.dtypes["solution"], [md] = archive.dtypes["measures"], [jd] = dtype of the
    Jacobian array the user passes to tell_dqd *)
Definition out_dtype (fixed : bool) (k : akind) (sd md jd : dt) : dt :=
  let bd := bounds_dt fixed sd md in
  let noise := astype sd F64 in                      (* rng.normal(...).astype(parents.dtype) *)
  let gauss := promote (promote sd noise) bd in      (* np.clip(parents + noise, lb, ub) *)
  let iso := promote (promote (promote sd noise) (promote noise (promote sd sd))) bd in
  let init := promote sd bd in                       (* np.clip(initial_solutions, lb, ub) *)
  match k with
  | KGaussian false => gauss
  | KGaussian true => init
  | KIsoLine false => iso
  | KIsoLine true => init
  | KGA OpGaussian false => gauss
  | KGA OpIsoLine false => iso
  | KGA _ true => init
  | KES e => es_out_dtype e sd
  | KGoDqd _ true => if fixed then sd else F64       (* np.empty((0, solution_dim)) *)
  | KGoDqd false false => gauss
  | KGoDqd true false => iso
  | KGoAsk _ true => if fixed then init else sd      (* initial_solutions (clipped when fixed) *)
  | KGoAsk false false =>
      (* self._parents + jacobian[:, 0] * self._sigma_g ; sigma_g is a numpy scalar of dtype sd *)
      cast_out fixed sd (promote gauss (promote jd sd))
  | KGoAsk true false =>
      (* np.sum(jacobian * noise, axis=1) + self._parents ; noise is float64 (no astype) *)
      cast_out fixed sd (promote (promote jd F64) gauss)
  | KGaeDqd => sd                                    (* grad_opt.theta[None]; theta copies x0 / an elite *)
  | KGaeAsk e =>
      (* theta + np.sum(jacobian * coeffs[:, :, None], axis=1) *)
      cast_out fixed sd (promote sd (promote jd (es_out_dtype e sd)))
  end.

Definition all_dt : list dt := [F32; F64].
Definition all_bool : list bool := [false; true].
Definition all_es : list es_kind := [CmaEs; SepCmaEs; LmMaEs; OpenAiEs; PyCmaEs].
Definition all_akind : list akind :=
  map KGaussian all_bool ++ map KIsoLine all_bool ++
  flat_map (fun o => map (KGA o) all_bool) [OpGaussian; OpIsoLine] ++
  map KES all_es ++
  flat_map (fun a => map (KGoDqd a) all_bool) all_bool ++
  flat_map (fun a => map (KGoAsk a) all_bool) all_bool ++
  [KGaeDqd] ++ map KGaeAsk all_es.

(** * Every clipping ask path behind one entry point (what Properties/C08.v quantifies over) *)
Inductive ask_call :=
| AGaussian (c : ecfg) (elites : matrix) (ints : nat -> nat) (z : nat -> nat -> Q)
| AIsoLine (c : ecfg) (elites : matrix) (ints : nat -> nat) (iso : nat -> nat -> Q) (line : nat -> Q)
| AGA (c : ecfg) (o : operator) (elites : matrix) (ints : nat -> nat) (z : nat -> nat -> Q)
      (line : nat -> Q)
| AGoDqd (c : ecfg) (isolinedd : bool) (elites : matrix) (ints : nat -> nat) (z : nat -> nat -> Q)
         (line : nat -> Q)
| AGoAsk (c : ecfg) (mg : bool) (elites : matrix) (parents : matrix) (jac : option (list matrix))
         (sigma_g : Q) (m1 : nat) (z : nat -> nat -> Q).

Definition call_cfg (a : ask_call) : ecfg :=
  match a with
  | AGaussian c _ _ _ | AIsoLine c _ _ _ _ | AGA c _ _ _ _ _ | AGoDqd c _ _ _ _ _
  | AGoAsk c _ _ _ _ _ _ _ => c
  end.
Definition call_elites (a : ask_call) : matrix :=
  match a with
  | AGaussian _ e _ _ | AIsoLine _ e _ _ _ | AGA _ _ e _ _ _ | AGoDqd _ _ e _ _ _
  | AGoAsk _ _ e _ _ _ _ _ => e
  end.
Definition is_ask_dqd (a : ask_call) : bool := match a with AGoDqd _ _ _ _ _ _ => true | _ => false end.

Definition run_ask (a : ask_call) : result matrix :=
  match a with
  | AGaussian c e ints z => Ok (gaussian_ask c e ints z)
  | AIsoLine c e ints iso line => Ok (isoline_ask c e ints iso line)
  | AGA c o e ints z line => Ok (ga_ask c o e ints z line)
  | AGoDqd c l e ints z line => Ok (go_ask_dqd c l e ints z line)
  | AGoAsk c mg e ps jac sg m1 z => go_ask c mg e ps jac sg m1 z
  end.
