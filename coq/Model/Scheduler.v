(** Model of ribs/schedulers/_scheduler.py : Scheduler (executable definitions only).

    State follows [Scheduler.__init__]:
      last_called  = _last_called        (None | "ask" | "ask_dqd" | "tell" | "tell_dqd")
      cur          = _cur_solutions      (the concatenated batch returned by the last ask)
      num_emitted  = _num_emitted        (per emitter; the initial [None] is modelled as 0: the
                                          entries are only read by a tell, which needs a prior ask)
      mode         = _add_mode
    The collaborators are abstract and only *recorded*:
      arch / rarch = the archive / result archive, abstracted as the list of insertion calls they
                     accepted so far (oldest first); what the archive answers (its add feedback per
                     row, or the exception it raises) is an oracle input of the tell.
      elog         = one spy log per emitter: what it returned from ask/ask_dqd (an input of the ask)
                     and every argument it was handed by tell/tell_dqd.
    A value of type [V] is one row of one field (the model only moves rows around); [F] is the
    archive's feedback for one row (one row of every add_info array). *)
From Coq Require Import List Arith Bool Lia.
From PV Require Import Base.ListUtil Base.SliceUtil Model.Store.
Import ListNotations.
Set Implicit Arguments.

Inductive call := CAsk | CAskDqd | CTell | CTellDqd.
Inductive add_mode := Batch | Single.

Definition call_eqb (a b : call) : bool :=
  match a, b with
  | CAsk, CAsk | CAskDqd, CAskDqd | CTell, CTell | CTellDqd, CTellDqd => true
  | _, _ => false
  end.

(** [_last_called == c] *)
Definition last_is (l : option call) (c : call) : bool :=
  match l with Some d => call_eqb d c | None => false end.

Section Scheduler.
Variable V : Type.
Variable F : Type.

(** a keyword argument of tell: an array with one row per solution, or [None] *)
Definition column := option (list V).

Definition slice_col (pos end_ : nat) (c : column) : column :=
  option_map (fun l => slice l pos end_) c.

(** [{name: None if arr is None else arr[i]}] *)
Definition row_at (i : nat) (data : list column) : list (option V) :=
  map (fun c => match c with None => None | Some l => nth_error l i end) data.

(** insertion calls seen by an archive *)
Inductive aevent :=
| AddBatch (data : list column)          (* archive.add( **data) *)
| AddSingle (row : list (option V)).     (* archive.add_single( **single_data) *)

(** keyword arguments of one emitter.tell / tell_dqd call; [t_data] is in the order of the
    scheduler's [data] dict: objective, measures, **fields, solution *)
Record told := mkTold {
  t_data : list column;
  t_jac : option (list V);       (* None for tell, Some for tell_dqd *)
  t_info : list F                (* add_info, row-wise *)
}.

Inductive eevent :=
| Asked (dqd : bool) (rows : list V)     (* emitter.ask() / ask_dqd() was called and returned rows *)
| Told (dqd : bool) (t : told).          (* emitter.tell(...) / tell_dqd(...) *)

Record sched := mkSched {
  last_called : option call;
  cur : list V;
  num_emitted : list nat;
  arch : list aevent;
  rarch : option (list aevent);          (* None: no result_archive was given *)
  mode : add_mode;
  elog : list (list eevent)
}.

Definition sched_init (n_emitters : nat) (m : add_mode) (with_result : bool) : sched :=
  mkSched None [] (repeat 0 n_emitters) [] (if with_result then Some [] else None) m
          (repeat [] n_emitters).

Definition n_emitters (s : sched) : nat := length (elog s).

(** spy bookkeeping: emitter [i] observes event [e] *)
Definition push (el : list (list eevent)) (i : nat) (e : eevent) : list (list eevent) :=
  upd el i (nth i el [] ++ [e]).
Definition push_all (el : list (list eevent)) (evs : list (nat * eevent)) : list (list eevent) :=
  fold_left (fun el ie => push el (fst ie) (snd ie)) evs el.
(** [for (i, n) in kvs: nums[i] = n] *)
Definition set_all (nums : list nat) (kvs : list (nat * nat)) : list nat :=
  fold_left (fun m kv => upd m (fst kv) (snd kv)) kvs nums.

(** ** ask / ask_dqd over the emitters [idxs] (all of them for Scheduler, the active ones for
    BanditScheduler).  [resp i] = what emitter [i] returns from ask()/ask_dqd() this time.
      for i, emitter in ...:
          emitter_sols = emitter.ask(); _cur_solutions.append(emitter_sols)
          _num_emitted[i] = len(emitter_sols)
      _cur_solutions = np.concatenate(_cur_solutions) *)
Definition ask_route (dqd : bool) (idxs : list nat) (resp : nat -> list V)
           (nums : list nat) (el : list (list eevent))
  : list V * list nat * list (list eevent) :=
  let sols := map (fun i => (i, resp i)) idxs in
  (concat (map snd sols),
   set_all nums (map (fun p => (fst p, length (snd p))) sols),
   push_all el (map (fun p => (fst p, Asked dqd (snd p))) sols)).

(** ** the pos/end loop of tell / tell_dqd:
      pos = 0
      for emitter, n in ...:
          end = pos + n
          emitter.tell( **{name: None if arr is None else arr[pos:end]}, [jacobian[pos:end],]
                       add_info={name: arr[pos:end]})
          pos = end *)
Definition mk_told (pos end_ : nat) (data : list column) (jac : option (list V)) (info : list F) : told :=
  mkTold (map (slice_col pos end_) data) (option_map (fun j => slice j pos end_) jac) (slice info pos end_).

Fixpoint deliveries (idxs : list nat) (nums : list nat) (pos : nat)
         (data : list column) (jac : option (list V)) (info : list F) : list (nat * told) :=
  match idxs with
  | [] => []
  | i :: t =>
      let n := nth i nums 0 in
      let end_ := pos + n in
      (i, mk_told pos end_ data jac info) :: deliveries t nums end_ data jac info
  end.

(** ** _validate_tell_data: every array that is not None has len(_cur_solutions) rows *)
Definition lens_ok (n : nat) (data : list column) : bool :=
  forallb (fun c => match c with None => true | Some l => Nat.eqb (length l) n end) data.

(** ** _add_to_archives.  Oracle inputs: [fb k] = the add feedback of the archive for row [k] of this
    batch; [fail = Some k]: the archive's validation rejects the batch (batch mode) / row [k]
    (single mode) with a ValueError (a rejected call leaves an archive untouched: C11).
    batch : add_info = archive.add( **data); result_archive.add( **data)
    single: for i in range(len(_cur_solutions)):
                single_info = archive.add_single( **row i); add_info[name].append(...)
                result_archive.add_single( **row i) *)
Definition app_event (a : list aevent) (r : option (list aevent)) (e : aevent) :=
  (a ++ [e], option_map (fun l => l ++ [e]) r).

Fixpoint single_loop (data : list column) (fb : nat -> F) (fail : option nat)
         (is : list nat) (a : list aevent) (r : option (list aevent)) (info : list F)
  : list aevent * option (list aevent) * result (list F) :=
  match is with
  | [] => (a, r, Ok info)
  | i :: t =>
      match fail with
      | Some k =>
          if Nat.eqb i k then (a, r, Err ValueError)
          else let '(a', r') := app_event a r (AddSingle (row_at i data)) in
               single_loop data fb fail t a' r' (info ++ [fb i])
      | None =>
          let '(a', r') := app_event a r (AddSingle (row_at i data)) in
          single_loop data fb fail t a' r' (info ++ [fb i])
      end
  end.

Definition add_to_archives (m : add_mode) (n : nat) (data : list column) (fb : nat -> F)
           (fail : option nat) (a : list aevent) (r : option (list aevent))
  : list aevent * option (list aevent) * result (list F) :=
  match m with
  | Batch =>
      match fail with
      | Some _ => (a, r, Err ValueError)
      | None => let '(a', r') := app_event a r (AddBatch data) in (a', r', Ok (map fb (seq 0 n)))
      end
  | Single => single_loop data fb fail (seq 0 n) a r []
  end.

(** ** the four public methods *)
Record tell_args := mkTellArgs {
  ta_data : list column;           (* objective, measures, **fields (caller's order) *)
  ta_jac : list V;                 (* jacobian; only read by tell_dqd *)
  ta_fb : nat -> F;                (* oracle, see add_to_archives *)
  ta_fail : option nat             (* oracle, see add_to_archives *)
}.

Inductive out := ORows (rows : list V) | ONone.

Definition ask_call (dqd : bool) : call := if dqd then CAskDqd else CAsk.
Definition tell_call (dqd : bool) : call := if dqd then CTellDqd else CTell.

(** Scheduler.ask (dqd = false) and Scheduler.ask_dqd (dqd = true): the two Python bodies differ
    only in the emitter method they call and the value stored in _last_called. *)
Definition ask_gen (dqd : bool) (s : sched) (resp : nat -> list V) : sched * result out :=
  if last_is (last_called s) CAsk || last_is (last_called s) CAskDqd then (s, Err RuntimeError)
  else
    let '(sols, nums, el) :=
      ask_route dqd (seq 0 (n_emitters s)) resp (num_emitted s) (elog s) in
    (mkSched (Some (ask_call dqd)) sols nums (arch s) (rarch s) (mode s) el, Ok (ORows sols)).

(** Scheduler.tell (dqd = false) and Scheduler.tell_dqd (dqd = true).  Order as in the code:
    protocol check (raise before any assignment), [_last_called] assignment, length validation
    (ValueError), jacobian length (tell_dqd only), archive insertion, emitter loop. *)
Definition tell_gen (dqd : bool) (s : sched) (a : tell_args) : sched * result out :=
  if negb (last_is (last_called s) (ask_call dqd)) then (s, Err RuntimeError)
  else
    let lc := Some (tell_call dqd) in
    let keep := mkSched lc (cur s) (num_emitted s) (arch s) (rarch s) (mode s) (elog s) in
    let n := length (cur s) in
    if negb (lens_ok n (ta_data a)) then (keep, Err ValueError)
    else
      let data := ta_data a ++ [Some (cur s)] in
      if dqd && negb (Nat.eqb (length (ta_jac a)) n) then (keep, Err ValueError)
      else
        match add_to_archives (mode s) n data (ta_fb a) (ta_fail a) (arch s) (rarch s) with
        | (ar, rr, Err e) =>
            (mkSched lc (cur s) (num_emitted s) ar rr (mode s) (elog s), Err e)
        | (ar, rr, Ok info) =>
            let ds := deliveries (seq 0 (n_emitters s)) (num_emitted s) 0 data
                                 (if dqd then Some (ta_jac a) else None) info in
            (mkSched lc (cur s) (num_emitted s) ar rr (mode s)
                     (push_all (elog s) (map (fun d => (fst d, Told dqd (snd d))) ds)),
             Ok ONone)
        end.

Inductive sop :=
| OpAsk (resp : nat -> list V)
| OpAskDqd (resp : nat -> list V)
| OpTell (a : tell_args)
| OpTellDqd (a : tell_args).

Definition kind_of (o : sop) : call :=
  match o with OpAsk _ => CAsk | OpAskDqd _ => CAskDqd | OpTell _ => CTell | OpTellDqd _ => CTellDqd end.

Definition sched_step (s : sched) (o : sop) : sched * result out :=
  match o with
  | OpAsk resp => ask_gen false s resp
  | OpAskDqd resp => ask_gen true s resp
  | OpTell a => tell_gen false s a
  | OpTellDqd a => tell_gen true s a
  end.

(** a whole program: final state and the outcome of every call *)
Fixpoint sched_run (s : sched) (ops : list sop) : sched * list (result out) :=
  match ops with
  | [] => (s, [])
  | o :: t => let '(s1, r) := sched_step s o in let '(s2, rs) := sched_run s1 t in (s2, r :: rs)
  end.

End Scheduler.

Arguments ONone {V}.
Arguments sched_init {V F} n_emitters m with_result.
Arguments Asked {V F} dqd rows.
Arguments Told {V F} dqd t.
Arguments OpAsk {V F} resp.
Arguments OpAskDqd {V F} resp.
Arguments OpTell {V F} a.
Arguments OpTellDqd {V F} a.
