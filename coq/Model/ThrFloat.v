(** Bit-exact model of the CMA-MAE threshold update in IEEE arithmetic (Coq primitive floats for binary64, SpecFloat operations with
    prec 24 / emax 128 for binary32), in the operation order of the code.  NOT extracted: evaluated inside Coq with [vm_compute] on
    case files the harness generates from arbitrary floats.

      single_entry_with_threshold :  cur_threshold * (1.0 - learning_rate) + objective * learning_rate
      _compute_thresholds (k = 1) :  ratio = (1.0 - learning_rate) ** 1 ;  ratio * cur_threshold + (objective / 1) * (1 - ratio)
      value                       :  objective - cur_threshold

    The single path and the value work on scalars / arrays of the archive's dtype, so every operation is a single correctly rounded
    operation of that format (numpy treats the Python literals 1.0 / 1 as weak scalars); x ** 1 and x / 1 are exact.  The batch path
    of a float32 archive leaves float32 (see [batch1_thr]). *)
From Coq Require Import ZArith PrimFloat Uint63 FloatOps SpecFloat Bool.
From PV Require Import Model.GridFloat.
Open Scope Z_scope.

Definition add32 (a b : float) : float := SF2Prim (SFadd 24 128 (Prim2SF a) (Prim2SF b)).
Definition mul32 (a b : float) : float := SF2Prim (SFmul 24 128 (Prim2SF a) (Prim2SF b)).

Definition one : float := mkf 1 0.

Definition single_thr (f32 : bool) (t a f : float) : float :=
  if f32 then add32 (mul32 t (sub32 one a)) (mul32 f a)
  else (t * (one - a) + f * a)%float.

(** binary64 -> binary32 (the store casts the computed threshold to the archive's dtype) *)
Definition round32 (x : float) : float := SF2Prim (SFmul 24 128 (Prim2SF x) (Prim2SF one)).

(** In a float32 archive [1.0 - learning_rate] is a float32 scalar, but [ratio ** objective_sizes] (int64 array) promotes to
    float64, so the rest of the batch formula is evaluated in binary64 on float32-valued operands and the result is rounded to
    binary32 when it is written into the store. *)
Definition batch1_thr (f32 : bool) (t a f : float) : float :=
  if f32 then let r := sub32 one a in round32 (r * t + f * (one - r))%float
  else let r := (one - a)%float in (r * t + f * (one - r))%float.

Definition value_of (f32 : bool) (t f : float) : float := if f32 then sub32 f t else (f - t)%float.

(** a finite float as (signed mantissa, exponent); zeros as (0, 0); non-finite as (0, 1) *)
Definition fbits (x : float) : Z * Z :=
  match Prim2SF x with
  | S754_zero _ => (0, 0)
  | S754_finite s m e => ((if s then - Zpos m else Zpos m), e)
  | _ => (0, 1)
  end.

(** mode 0: single path, 1: batch path with one accepted candidate; f32: archive dtype float32 *)
Definition run_thr (mode : Z) (f32 : Z) (tm te am ae fm fe : Z) : (Z * Z) * (Z * Z) :=
  let b := negb (f32 =? 0) in
  let t := mkf tm te in let a := mkf am ae in let f := mkf fm fe in
  (fbits (if mode =? 0 then single_thr b t a f else batch1_thr b t a f), fbits (value_of b t f)).
