(** Executable runner for the ArrayStore model (rows are candidate ids, [R = Z]). *)
From Coq Require Import List ZArith Bool.
From PV Require Import Base.ListUtil Model.Store Model.Sx.
Import ListNotations.
Open Scope Z_scope.

Definition err_code (e : err) : Z :=
  match e with ValueError => 1 | IndexError => 2 | RuntimeError => 3 | KeyError => 4
             | TypeError => 5 | StopIteration => 6 | OtherError => 7 end.

Definition eres {A} (f : A -> sx) (r : result A) : sx :=
  match r with Ok a => SL [SZ 0; f a] | Err e => SL [SZ (err_code e)] end.

Definition erow (r : option Z) : sx := eopt ez r.

Record st := { s_store : store Z; s_iters : list iter }.

(** a transform described by its result (a constant function of its inputs) *)
Definition const_transform (i' : list nat) (x' : list Z) : transform Z := fun _ _ _ => (i', x').

Definition dtransform (s : sx) : option (transform Z) :=
  match s with
  | SL [a; b] => match dlist dnat a, dlist dz b with
                 | Some i', Some x' => Some (const_transform i' x') | _, _ => None end
  | _ => None
  end.

Definition run_op (s : st) (o : sx) : st * sx :=
  let keep := fun out => (s, out) in
  match o with
  | SL [SZ 0; a; b; k; ts] =>
      match dlist dnat a, dlist dz b, dbool k, dlist dtransform ts with
      | Some idxs, Some xs, Some kk, Some tl =>
          let '(s', r) := add (s_store s) idxs xs tl kk in
          ({| s_store := s'; s_iters := s_iters s |}, eres (fun _ => SL []) r)
      | _, _, _, _ => keep sx_fail
      end
  | SL [SZ 1] => ({| s_store := clear (s_store s); s_iters := s_iters s |}, SL [SZ 0])
  | SL [SZ 2; c] =>
      match dnat c with
      | Some cc => let '(s', r) := resize (s_store s) cc in
                   ({| s_store := s'; s_iters := s_iters s |}, eres (fun _ => SL []) r)
      | None => keep sx_fail
      end
  | SL [SZ 3; a] =>
      match dlist dnat a with
      | Some idxs => keep (eres (elist (fun p => SL [ebool (fst p); erow (snd p)]))
                                (retrieve (s_store s) idxs))
      | None => keep sx_fail
      end
  | SL [SZ 4] => keep (elist (fun p => SL [enat (fst p); erow (snd p)]) (data (s_store s)))
  | SL [SZ 5] => ({| s_store := s_store s; s_iters := s_iters s ++ [iter_new (s_store s)] |},
                  enat (length (s_iters s)))
  | SL [SZ 6; k] =>
      match dnat k with
      | Some kk =>
          match nth_error (s_iters s) kk with
          | Some it =>
              let '(it', out) := iter_next (s_store s) it in
              ({| s_store := s_store s; s_iters := upd (s_iters s) kk it' |},
               match out with
               | Yield i r => SL [SZ 0; enat i; erow r]
               | Stop _ => SL [SZ 6]
               | Modified _ => SL [SZ 3]
               end)
          | None => keep sx_fail
          end
      | None => keep sx_fail
      end
  | SL [SZ 7] => ({| s_store := from_raw (as_raw (s_store s)); s_iters := s_iters s |}, SL [SZ 0])
  | SL [SZ 8] =>
      let t := s_store s in
      keep (SL [enat (cap t); enat (len t); elist enat (olist t); elist ebool (occ t);
                enat (nadd t); enat (nclear t)])
  | _ => keep sx_fail
  end.

Fixpoint run_ops (s : st) (ops : list sx) : list sx :=
  match ops with
  | [] => []
  | o :: t => let '(s', out) := run_op s o in out :: run_ops s' t
  end.

Definition run_C13 (inp : sx) : sx :=
  match inp with
  | SL [c; SL ops] =>
      match dnat c with
      | Some cc => SL (run_ops {| s_store := init cc; s_iters := [] |} ops)
      | None => sx_fail
      end
  | _ => sx_fail
  end.
