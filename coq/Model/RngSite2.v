(** Extension of Model/RngSite.v for the static inventory scan harness/c09_scan.py (definitions only).

    RngSite.v describes CONSTRUCTION / forwarding sites.  The scan also inventories every USE site:
    a call of a numpy Generator (or third-party sampler) method, together with where its receiver
    comes from.  An inventory is a list of entries (construction sites and use sites);
    [Generated/RngInventory.v] is such a list, emitted from the current source on every run, and
    [Refine/RngInventoryOK.v] (generated as well) evaluates [all_entries_seeded] on it. *)
From Coq Require Import List ZArith Bool String.
From PV Require Import Model.Rng Model.RngSite.
Import ListNotations.

(** where the receiver [r] of [r.<method>(...)] comes from *)
Inductive recv_kind :=
  | RvSelfAttr    (* self.<attr>: every assignment to <attr> in the class and its ribs base classes is a generator construction *)
  | RvLocal       (* a local name, every assignment of which in the enclosing function is a generator construction *)
  | RvSampler     (* a third-party sampler object of the allow-list table (Sobol / Halton instance): its constructor carries the seed *)
  | RvParam       (* a generator handed in by the caller: not owned by the component *)
  | RvUnknown.    (* an RNG-looking method on a receiver the scan cannot classify *)

Record use_site := mkUse {
  u_file : string; u_line : nat; u_scope : string;
  u_method : string;        (* normal, standard_normal, uniform, integers, random, ... *)
  u_recv : string;          (* source text of the receiver *)
  u_rkind : recv_kind;
  u_src : seed_src          (* worst seed source over the constructions that can reach the receiver *)
}.

Definition use_seeded (u : use_site) : bool :=
  match u_rkind u with
  | RvSelfAttr | RvLocal | RvSampler => src_seeded (u_src u)
  | RvParam | RvUnknown => false
  end.

Inductive entry := ESite (s : site) | EUse (u : use_site).

Definition entry_seeded (e : entry) : bool :=
  match e with ESite s => site_seeded s | EUse u => use_seeded u end.

Definition all_entries_seeded (l : list entry) : bool := forallb entry_seeded l.

Definition unseeded_entries (l : list entry) : list entry := filter (fun e => negb (entry_seeded e)) l.

(** which source an execution of the entry reads, [g] being the generator the enclosing component
    built from its seed; anything not established as seeded is given the worst case *)
Definition resolve_entry (e : entry) (g : nat) : src :=
  match e with
  | ESite s => resolve s g
  | EUse u => if use_seeded u then Own g else OsEntropy
  end.

(** a component operation written as the list of entry executions it performs *)
Definition entry_use := (entry * nat * Z)%type.
Definition entry_prog (us : list entry_use) : prog :=
  map (fun u : entry_use => let '(e, g, n) := u in Draw (resolve_entry e g) n) us.

(** histories whose pyribs calls are given as entry executions *)
Inductive eop :=
  | EPy (us : list entry_use)
  | EForeign (g : gsel) (n : Z)
  | EReseed (g : gsel) (sid : seedid)
  | ECheckpoint (gl : globals).

Definition compile_eop (o : eop) : op :=
  match o with
  | EPy us => Py (entry_prog us)
  | EForeign g n => Foreign g n
  | EReseed g sid => Reseed g sid
  | ECheckpoint gl => Checkpoint gl
  end.

(** every entry execution of the pyribs call [o] is an entry of the inventory [inv] *)
Definition eop_within (inv : list entry) (o : eop) : Prop :=
  match o with
  | EPy us => forall u, In u us -> In (fst (fst u)) inv
  | _ => True
  end.

Definition eop_is_py (o : eop) : bool := match o with EPy _ => true | _ => false end.

(** summary counters printed next to the verdict *)
Definition count_sites (l : list entry) : nat := List.length (filter (fun e => match e with ESite _ => true | _ => false end) l).
Definition count_uses (l : list entry) : nat := List.length (filter (fun e => match e with EUse _ => true | _ => false end) l).
