(** The CMA-MAE threshold update of single_entry_with_threshold in ROUNDED real arithmetic, generic in the roundings:
        new_threshold = cur_threshold * (1.0 - learning_rate) + objective * learning_rate
    with one rounding after each operation ([rs] the subtraction, [rm] the two multiplications, [ra] the addition).
    The theorems (Proofs/ThrRoundProofs.v) say which clauses of C05 survive rounding for EVERY monotone rounding (so for
    every IEEE format and rounding direction) -- a = 0 freezes the threshold exactly, a = 1 gives exactly the objective,
    the result is monotone in threshold and objective and lies between the roundings' images of the two -- and
    Properties/C05Float.v shows by a binary32 witness (bit-exact model Model/ThrFloat.v) that "thresholds never decrease"
    does NOT survive: it can fail by one unit in the last place.  No overflow / NaN here (objectives and thresholds are
    finite; an overflowing product is outside this reading and covered per instance by Model/ThrFloat.v). *)
From Coq Require Import Reals.
Open Scope R_scope.

Section ThrRound.
Variables rs rm ra : R -> R.
Definition single_r (t a f : R) : R := ra (rm (t * rs (1 - a)) + rm (f * a)).
End ThrRound.
