(** Statement-level facts about SolutionBuffer / SlidingBoundariesArchive that Model/Sliding.v renders; harness/py2v_sliding.py
    records which of them the CURRENT source exhibits (Generated/SlidingGen.v). *)
From Coq Require Import List.
Import ListNotations.

Inductive sliding_fact :=
  | BufferDropsOldestWhenFull               (* SolutionBuffer.add                                      -> Sliding.buf_add *)
  | RemapBoundariesFromSortedMeasures       (* boundaries[i][j] = sorted[i][idx(j)], last = sorted[-1] -> Sliding.new_bnd1 *)
  | RemapBoundsFromNewBoundariesFirst       (* lower / upper / interval from the NEW boundaries before re-insertion -> Sliding.new_geom, remap (stale = false) *)
  | RemapReaddsElitesThenBufferThenNewest   (* clear; add(elites ++ buffer without newest); add_single(newest)     -> Sliding.remap *)
  | AddSingleRejectsBeforeBuffering         (* validation, field names, conversion precede buffer.add and the count -> Sliding.sadd_single on a VALIDATED entry *)
  | AddIsLoopOfAddSingle.                   (* add = add_single in batch order                                      -> Sliding.sadd *)

Definition model_sliding_facts : list sliding_fact :=
  [BufferDropsOldestWhenFull; RemapBoundariesFromSortedMeasures; RemapBoundsFromNewBoundariesFirst; RemapReaddsElitesThenBufferThenNewest;
   AddSingleRejectsBeforeBuffering; AddIsLoopOfAddSingle].
