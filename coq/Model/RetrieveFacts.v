(** Statement-level facts about ArchiveBase.retrieve / retrieve_single / sample_elites that Model/Archive.v renders
    ([retrieve_cells], [sample]); harness/py2v_retrieve.py records which of them the CURRENT source exhibits. *)
From Coq Require Import List.
Import ListNotations.

Inductive retrieve_fact :=
  | RetrieveReadsCellsOfIndexOf      (* store.retrieve(index_of(measures))                                  -> retrieve_cells a (map cell_of queries) *)
  | RetrieveBlanksUnoccupiedOnly     (* only rows with occupied = False are blanked                           -> (false, None) exactly when the cell is empty *)
  | RetrieveSingleIsRowZero          (* retrieve_single = row 0 of retrieve on a batch of one                -> C07_single_eq *)
  | SampleEmptyRaisesIndexError      (* if self.empty: raise IndexError                                       -> sample, len = 0 *)
  | SampleOwnGeneratorBelowLen       (* positions = self._rng.integers(len(store), size=n)                    -> [ints] < len *)
  | SampleThroughOccupiedList.       (* occupied_list[positions], then store.retrieve                         -> nth k (olist ...) *)

Definition model_retrieve_facts : list retrieve_fact :=
  [RetrieveReadsCellsOfIndexOf; RetrieveBlanksUnoccupiedOnly; RetrieveSingleIsRowZero; SampleEmptyRaisesIndexError; SampleOwnGeneratorBelowLen;
   SampleThroughOccupiedList].
