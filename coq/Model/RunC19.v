(** Executable runner for the DQD emitter models (C19). *)
From Coq Require Import List ZArith QArith Bool.
From PV Require Import Base.ListUtil Base.QVec Model.Store Model.Sx Model.ESControl Model.DQD.
Import ListNotations.
Open Scope Z_scope.

Definition c19_err_code (e : err) : Z :=
  match e with ValueError => 1 | IndexError => 2 | RuntimeError => 3 | KeyError => 4
             | TypeError => 5 | StopIteration => 6 | OtherError => 7 end.

Definition dvec : sx -> option vec := dlist dq.
Definition evec : vec -> sx := elist eq_.

Definition drule (s : sx) : option restart_rule :=
  match s with
  | SL [SZ 0] => Some Basic
  | SL [SZ 1] => Some NoImprovement
  | SL [SZ 2; SZ n] => Some (EveryN n)
  | _ => None
  end.

Definition dgopt (s : sx) : option gopt :=
  match s with
  | SL [SZ 0; lr] => match dq lr with Some l => Some (GradAscent l) | None => None end
  | SL [SZ 1] => Some Opaque
  | _ => None
  end.

Definition egaction (a : gaction) : sx :=
  match a with
  | GOptTell idx np => SL [SZ 0; elist enat idx; enat np]
  | GStep g => SL [SZ 1; evec g]
  | GSample n => SL [SZ 2; enat n]
  | GGradReset x => SL [SZ 3; evec x]
  | GOptReset0 => SL [SZ 4]
  | GRankerReset => SL [SZ 5]
  end.

Definition gae_op (patched : bool) (c : gae_cfg) (s : gae) (o : sx) : gae * sx :=
  match o with
  | SL [SZ 0] => (s, evec (gae_ask_dqd s))
  | SL [SZ 1; J; norms] =>
      match dlist dvec J, dlist dq norms with
      | Some j, Some nm => (gae_tell_dqd c s j nm, SL [SZ 0])
      | _, _ => (s, sx_fail)
      end
  | SL [SZ 2; coeffs] =>
      match dlist (dlist dq) coeffs with
      | Some cs => (s, match gae_ask c s cs with
                       | Ok rows => SL [SZ 0; elist evec rows]
                       | Err e => SL [SZ (c19_err_code e)]
                       end)
      | None => (s, sx_fail)
      end
  | SL [SZ 3; sols; sts; idx; stop; ws; elites; pick; after] =>
      match dlist dvec sols, dlist dz sts, dlist dnat idx, dbool stop, dlist dq ws,
            dlist dvec elites, dnat pick, dvec after with
      | Some so, Some st, Some ix, Some sp, Some w, Some el, Some pk, Some af =>
          let i := mkTellIn so st ix sp (fun _ => w) el pk af in
          match gae_tell_with patched c i s with
          | Ok (log, s') =>
              (s', SL [SZ 0; elist egaction log; evec (theta s'); enat (g_itrs s'); enat (g_restarts s')])
          | Err e => (s, SL [SZ (c19_err_code e)])
          end
      | _, _, _, _, _, _, _, _ => (s, sx_fail)
      end
  | SL [SZ 4; th] =>
      (* re-synchronise the solution point with the implementation's after a step that was compared up to rounding *)
      match dvec th with
      | Some t => (mkGae t (jac s) (g_itrs s) (g_restarts s), SL [SZ 0])
      | None => (s, sx_fail)
      end
  | _ => (s, sx_fail)
  end.

Fixpoint gae_ops (patched : bool) (c : gae_cfg) (s : gae) (ops : list sx) : list sx :=
  match ops with
  | [] => []
  | o :: t => let '(s', out) := gae_op patched c s o in out :: gae_ops patched c s' t
  end.

Definition goe_op (c : goe_cfg) (s : goe) (o : sx) : goe * sx :=
  match o with
  | SL [SZ 0; empty; sols] =>
      match dbool empty, dlist dvec sols with
      | Some e, Some so => let '(s', out) := goe_ask_dqd c s e so in (s', elist evec out)
      | _, _ => (s, sx_fail)
      end
  | SL [SZ 1; J; norms] =>
      match dlist (dlist dvec) J, dlist (dlist dq) norms with
      | Some j, Some nm => (goe_tell_dqd c s j nm, SL [SZ 0])
      | _, _ => (s, sx_fail)
      end
  | SL [SZ 2; empty; coeffs] =>
      match dbool empty, dlist (dlist dq) coeffs with
      | Some e, Some cs => (s, match goe_ask c s e cs with
                               | Ok rows => SL [SZ 0; elist evec rows]
                               | Err er => SL [SZ (c19_err_code er)]
                               end)
      | _, _ => (s, sx_fail)
      end
  | _ => (s, sx_fail)
  end.

Fixpoint goe_ops (c : goe_cfg) (s : goe) (ops : list sx) : list sx :=
  match ops with
  | [] => []
  | o :: t => let '(s', out) := goe_op c s o in out :: goe_ops c s' t
  end.

Definition run_C19 (inp : sx) : sx :=
  match inp with
  | SL [SZ 0; SL [sel; rule; b; n; norm; eps; go; x0; patched]; SL ops] =>
      match dbool sel, drule rule, dnat b, dnat n, dbool norm, dq eps, dgopt go, dvec x0, dbool patched with
      | Some sl, Some r, Some bb, Some nn, Some nm, Some e, Some g, Some x, Some p =>
          let c := mkGaeCfg (mkCfg GAE (if sl then Filter else Mu) r bb) nn nm e g in
          SL (gae_ops p c (gae_init x) ops)
      | _, _, _, _, _, _, _, _, _ => sx_fail
      end
  | SL [SZ 1; SL [n; mg; sg; norm; eps; ini]; SL ops] =>
      match dnat n, dbool mg, dq sg, dbool norm, dq eps, dopt (dlist dvec) ini with
      | Some nn, Some m, Some s, Some nm, Some e, Some i =>
          SL (goe_ops (mkGoeCfg nn m s nm e i) goe_init ops)
      | _, _, _, _, _, _ => sx_fail
      end
  | _ => sx_fail
  end.
