(** Executable runner for the ProximityArchive model.
    Payload = (candidate id, measures); numbers are exact rationals.
    input : (cfg ops)   cfg = (k thr lc cap0)
    ops   : (0 noobj (cand ...))  add           -> (0 statuses novelties ((lo hi) ...) values) | (err)
            (1 noobj cand)        add_single    -> same
            (2)                   clear         -> (0)
            (3) / (4)             lower / upper -> (0 (q ...)) | (err)
            (5)                   observe       -> (len cap ((index (obj thr id meas)) ...))
            (6 (cand ...))        compute_novelty(measures, local_competition=objectives) -> (novelties ranges)
            (7 dists i)           "i is a valid answer of index_of" -> 0/1
    cand  : (obj id meas dists near) *)
From Coq Require Import List ZArith QArith Bool.
From PV Require Import Base.ListUtil Model.Store Model.Archive Model.Proximity Model.Sx.
Import ListNotations.
Open Scope Z_scope.

Definition pay := (Z * list Q)%type.
Definition meas14 (p : pay) : list Q := snd p.

Definition err_code14 (e : err) : Z :=
  match e with ValueError => 1 | IndexError => 2 | RuntimeError => 3 | KeyError => 4
             | TypeError => 5 | StopIteration => 6 | OtherError => 7 end.

Definition dcand (s : sx) : option (pcand pay) :=
  match s with
  | SL [o; i; m; d; nr] =>
      match dq o, dz i, dlist dq m, dlist dq d, dnat nr with
      | Some o', Some i', Some m', Some d', Some nr' => Some (mkPc o' (i', m') d' nr')
      | _, _, _, _, _ => None
      end
  | _ => None
  end.

Definition dcfg (s : sx) : option pcfg :=
  match s with
  | SL [k; t; l; c] =>
      match dnat k, dq t, dbool l, dnat c with
      | Some k', Some t', Some l', Some c' => Some (mkPcfg k' t' l' c')
      | _, _, _, _ => None
      end
  | _ => None
  end.

Definition eout (r : result addout) : sx :=
  match r with
  | Ok o => SL [SZ 0; elist ez (o_status o); elist eq_ (o_nov o);
                elist (fun p => SL [enat (fst p); enat (snd p)]) (o_lc o); elist eq_ (o_val o)]
  | Err e => SL [SZ (err_code14 e)]
  end.

Definition ebounds (r : result (list Q)) : sx :=
  match r with Ok v => SL [SZ 0; elist eq_ v] | Err e => SL [SZ (err_code14 e)] end.

Definition erow14 (r : option (row pay)) : sx :=
  match r with
  | Some r => SL [eq_ (r_obj r); eq_ (r_thr r); ez (fst (r_pay r)); elist eq_ (snd (r_pay r))]
  | None => SL []
  end.

Definition run_op14 (c : pcfg) (st : pstate pay) (o : sx) : pstate pay * sx :=
  let keep := fun out => (st, out) in
  match o with
  | SL [SZ 0; b; cs] =>
      match dbool b, dlist dcand cs with
      | Some b', Some cs' => let '(st', r) := padd c st b' cs' in (st', eout r)
      | _, _ => keep sx_fail
      end
  | SL [SZ 1; b; x] =>
      match dbool b, dcand x with
      | Some b', Some x' => let '(st', r) := padd_single c st b' x' in (st', eout r)
      | _, _ => keep sx_fail
      end
  | SL [SZ 2] => (pclear st, SL [SZ 0])
  | SL [SZ 3] => let '(st', r) := read_lo meas14 st in (st', ebounds r)
  | SL [SZ 4] => let '(st', r) := read_hi meas14 st in (st', ebounds r)
  | SL [SZ 5] =>
      keep (SL [enat (psize st); enat (pcap st);
                elist (fun p => SL [enat (fst p); erow14 (snd p)]) (data (pstore st))])
  | SL [SZ 6; cs] =>
      match dlist dcand cs with
      | Some cs' =>
          let '(nv, lcs) := pnovelty c st cs' in
          keep (SL [elist eq_ nv; elist (fun p => SL [enat (fst p); enat (snd p)]) lcs])
      | None => keep sx_fail
      end
  | SL [SZ 7; d; i] =>
      match dlist dq d, dnat i with
      | Some d', Some i' =>
          keep (ebool (Nat.eqb (length d') (psize st) && near_ok (psize st) (mkPc 0%Q ((0, []) : pay) d' i')))
      | _, _ => keep sx_fail
      end
  | _ => keep sx_fail
  end.

Fixpoint run_ops14 (c : pcfg) (st : pstate pay) (ops : list sx) : list sx :=
  match ops with
  | [] => []
  | o :: t => let '(st', out) := run_op14 c st o in out :: run_ops14 c st' t
  end.

Definition run_C14 (inp : sx) : sx :=
  match inp with
  | SL [cf; SL ops] =>
      match dcfg cf with
      | Some c =>
          match pinit pay c with
          | Ok st => SL (SL [SZ 0] :: run_ops14 c st ops)
          | Err e => SL [SL [SZ (err_code14 e)]]
          end
      | None => sx_fail
      end
  | _ => sx_fail
  end.
