(** Model of ribs/archives/_array_store.py : ArrayStore (executable definitions only).

    State follows [ArrayStore._props] / [_fields]:
      cap    = _props["capacity"]
      occ    = _props["occupied"]            (bool array of length cap)
      olist  = _props["occupied_list"][:n_occupied]   (n_occupied = length olist)
      rows   = the field arrays, row-wise; [None] = slot never written (np.empty garbage),
               [Some r] = last row written there (possibly stale after clear()).
      nadd, nclear = _props["updates"]
    A row [R] is abstract: the model only moves rows around. *)
From Coq Require Import List Arith Bool Lia.
From PV Require Import Base.ListUtil.
Import ListNotations.
Set Implicit Arguments.

Inductive err := ValueError | IndexError | RuntimeError | KeyError | TypeError | StopIteration | OtherError.

Inductive result (A : Type) := Ok (a : A) | Err (e : err).
Arguments Ok {A} a.
Arguments Err {A} e.

Section Store.
Variable R : Type.

Record store := mkStore {
  cap : nat;
  occ : list bool;
  olist : list nat;
  rows : list (option R);
  nadd : nat;
  nclear : nat
}.

Definition init (c : nat) : store :=
  mkStore c (repeat false c) [] (repeat None c) 0 0.

Definition get_occ (s : store) (i : nat) : bool := nth i (occ s) false.
Definition get_row (s : store) (i : nat) : option R := nth i (rows s) None.
Definition len (s : store) : nat := length (olist s).

(** retrieve(indices): numpy fancy indexing raises IndexError on an out-of-range index *)
Definition in_range (s : store) (idxs : list nat) : bool :=
  forallb (fun i => Nat.ltb i (cap s)) idxs.

Definition retrieve (s : store) (idxs : list nat) : result (list (bool * option R)) :=
  if in_range s idxs then Ok (map (fun i => (get_occ s i, get_row s i)) idxs)
  else Err IndexError.

Definition data (s : store) : list (nat * option R) :=
  map (fun i => (i, get_row s i)) (olist s).

(** new indices of an add, ascending and unique (np.where(aggregate(...) != 0)) *)
Definition new_indices (s : store) (idxs : list nat) : list nat :=
  filter (fun i => negb (get_occ s i)) (sort_uniq idxs).

Definition write_rows (rs : list (option R)) (idxs : list nat) (xs : list R) : list (option R) :=
  fold_left (fun r ix => upd r (fst ix) (Some (snd ix))) (combine idxs xs) rs.

Definition mark (o : list bool) (new : list nat) : list bool :=
  fold_left (fun o i => upd o i true) new o.

Definition bump_add (s : store) : store :=
  mkStore (cap s) (occ s) (olist s) (rows s) (S (nadd s)) (nclear s).

(** The tail of ArrayStore.add after the transforms ran, on the final indices / rows.
    [length xs <> length idxs] stands for "some field array does not have len(indices) rows";
    [keys_ok]: new_data.keys() == fields. *)
Definition add_raw (s : store) (idxs : list nat) (xs : list R) (keys_ok : bool)
  : store * result unit :=
  if Nat.eqb (length idxs) 0 then (s, Ok tt)
  else if negb (Nat.eqb (length idxs) (length xs)) then (s, Err ValueError)
  else if negb keys_ok then (s, Err ValueError)
  else if negb (in_range s idxs) then (s, Err IndexError)
  else
    let new := new_indices s idxs in
    (mkStore (cap s) (mark (occ s) new) (olist s ++ new)
             (write_rows (rows s) idxs xs) (nadd s) (nclear s), Ok tt).

(** A transform sees (indices, new_data, occupied, cur_data) and returns new (indices, new_data).
    add_info is threaded by the caller and not part of the store model. *)
Definition transform := list nat -> list R -> list (bool * option R) -> (list nat * list R).

Fixpoint run_transforms (s : store) (ts : list transform) (idxs : list nat) (xs : list R)
  : result (list nat * list R) :=
  match ts with
  | [] => Ok (idxs, xs)
  | t :: ts' =>
      match retrieve s idxs with
      | Err e => Err e
      | Ok view => let '(i', x') := t idxs xs view in run_transforms s ts' i' x'
      end
  end.

Definition add (s : store) (idxs : list nat) (xs : list R) (ts : list transform)
           (keys_ok : bool) : store * result unit :=
  let s1 := bump_add s in
  match run_transforms s1 ts idxs xs with
  | Err e => (s1, Err e)
  | Ok (i', x') => add_raw s1 i' x' keys_ok
  end.

Definition clear (s : store) : store :=
  mkStore (cap s) (repeat false (cap s)) [] (rows s) (nadd s) (S (nclear s)).

Definition resize (s : store) (c : nat) : store * result unit :=
  if Nat.leb c (cap s) then (s, Err ValueError)
  else (mkStore c (occ s ++ repeat false (c - cap s)) (olist s)
                (rows s ++ repeat None (c - cap s)) (nadd s) (nclear s), Ok tt).

(** as_raw_dict / from_raw_dict: the raw dict carries every component. *)
Record raw := mkRaw {
  r_cap : nat; r_occ : list bool; r_nocc : nat; r_olist : list nat;
  r_rows : list (option R); r_nadd : nat; r_nclear : nat }.

Definition as_raw (s : store) : raw :=
  mkRaw (cap s) (occ s) (length (olist s)) (olist s) (rows s) (nadd s) (nclear s).

Definition from_raw (r : raw) : store :=
  mkStore (r_cap r) (r_occ r) (firstn (r_nocc r) (r_olist r)) (r_rows r) (r_nadd r) (r_nclear r).

(** Iterator: snapshot of the update counters + position. *)
Record iter := mkIter { it_pos : nat; it_add : nat; it_clear : nat }.

Definition iter_new (s : store) : iter := mkIter 0 (nadd s) (nclear s).

Inductive iter_out := Yield (i : nat) (r : option R) | Stop | Modified.

Definition iter_next (s : store) (it : iter) : iter * iter_out :=
  if negb (Nat.eqb (it_add it) (nadd s) && Nat.eqb (it_clear it) (nclear s)) then (it, Modified)
  else if Nat.leb (len s) (it_pos it) then (it, Stop)
  else let i := nth (it_pos it) (olist s) 0 in
       (mkIter (S (it_pos it)) (it_add it) (it_clear it), Yield i (get_row s i)).

(** Histories *)
Inductive op :=
| OpAdd (idxs : list nat) (xs : list R) (ts : list transform) (keys_ok : bool)
| OpClear
| OpResize (c : nat).

Definition step (s : store) (o : op) : store :=
  match o with
  | OpAdd idxs xs ts k => fst (add s idxs xs ts k)
  | OpClear => clear s
  | OpResize c => fst (resize s c)
  end.

Definition run (c : nat) (ops : list op) : store := fold_left step ops (init c).

End Store.

Arguments init {R} c.
Arguments OpClear {R}.
Arguments OpResize {R} c.
