(** Executable runner for the Scheduler model.  Rows and feedback rows are opaque [sx] payloads
    ([V = F = sx]): the model can only move them around.
    input : [n_emitters; mode (0 batch, 1 single); with_result (0/1); ops]
      op = [0; resps]                      ask      (resps: one list of rows per emitter)
         | [1; resps]                      ask_dqd
         | [2; data; fbs; fail]            tell     (data: list of columns, [] = None, [[rows]] = array;
                                                     fbs: feedback row per solution; fail: [] | [k])
         | [3; data; jac; fbs; fail]       tell_dqd
    output: [per-op outputs; final state]; per-op output = [result; sizes of every log] *)
From Coq Require Import List ZArith Bool.
From PV Require Import Base.ListUtil Base.SliceUtil Model.Store Model.Sx Model.RunC13 Model.Scheduler.
Import ListNotations.
Open Scope Z_scope.

Definition dany (s : sx) : option sx := Some s.
Definition eany (s : sx) : sx := s.

Definition dcol (s : sx) : option (column sx) :=
  match s with
  | SL [] => Some None
  | SL [SL l] => Some (Some l)
  | _ => None
  end.
Definition ecol (c : column sx) : sx := match c with None => SL [] | Some l => SL [SL l] end.

Definition dresp (s : sx) : option (nat -> list sx) :=
  match dlist (dlist dany) s with
  | Some ls => Some (fun i => nth i ls [])
  | None => None
  end.

Definition dtell (data jac fbs fail : sx) : option (tell_args sx sx) :=
  match dlist dcol data, dlist dany jac, dlist dany fbs, dopt dnat fail with
  | Some d, Some j, Some f, Some fl => Some (mkTellArgs d j (fun k => nth k f sx_fail) fl)
  | _, _, _, _ => None
  end.

Definition dsop (s : sx) : option (sop sx sx) :=
  match s with
  | SL [SZ 0; r] => option_map (@OpAsk sx sx) (dresp r)
  | SL [SZ 1; r] => option_map (@OpAskDqd sx sx) (dresp r)
  | SL [SZ 2; d; f; fl] => option_map (@OpTell sx sx) (dtell d (SL []) f fl)
  | SL [SZ 3; d; j; f; fl] => option_map (@OpTellDqd sx sx) (dtell d j f fl)
  | _ => None
  end.

Definition eout (r : result (out sx)) : sx :=
  match r with
  | Ok (ORows rows) => SL [SZ 0; SL rows]
  | Ok ONone => SL [SZ 0]
  | Err e => SL [SZ (err_code e)]
  end.

Definition etold (t : told sx sx) : sx :=
  SL [elist ecol (t_data t); eopt (fun j => SL j) (t_jac t); SL (t_info t)].

Definition eeevent (e : eevent sx sx) : sx :=
  match e with
  | Asked dqd rows => SL [SZ 0; ebool dqd; SL rows]
  | Told dqd t => SL [SZ 1; ebool dqd; etold t]
  end.

Definition eaevent (e : aevent sx) : sx :=
  match e with
  | AddBatch data => SL [SZ 0; elist ecol data]
  | AddSingle row => SL [SZ 1; elist (eopt eany) row]
  end.

Definition ecall (c : option call) : sx :=
  match c with None => SZ 0 | Some CAsk => SZ 1 | Some CAskDqd => SZ 2 | Some CTell => SZ 3 | Some CTellDqd => SZ 4 end.

Definition esizes (s : sched sx sx) : sx :=
  SL [elist (fun l => enat (length l)) (elog s); enat (length (arch s));
      eopt (fun l => enat (length l)) (rarch s); ecall (last_called s)].

Definition estate (s : sched sx sx) : sx :=
  SL [elist (elist eeevent) (elog s); elist eaevent (arch s); eopt (elist eaevent) (rarch s);
      ecall (last_called s); elist enat (num_emitted s)].

Fixpoint run_sops (s : sched sx sx) (ops : list sx) : list sx * sx :=
  match ops with
  | [] => ([], estate s)
  | o :: t =>
      match dsop o with
      | None => ([sx_fail], estate s)
      | Some op =>
          let '(s', r) := sched_step s op in
          let '(outs, fin) := run_sops s' t in
          (SL [eout r; esizes s'] :: outs, fin)
      end
  end.

Definition run_C04 (inp : sx) : sx :=
  match inp with
  | SL [n; m; wr; SL ops] =>
      match dnat n, dbool m, dbool wr with
      | Some nn, Some mm, Some ww =>
          let '(outs, fin) := run_sops (sched_init nn (if mm then Single else Batch) ww) ops in
          SL [SL outs; fin]
      | _, _, _ => sx_fail
      end
  | _ => sx_fail
  end.
