(** Universal wire format between the harness and the extracted model: nested lists of integers.
    Every per-property runner is a Coq function [sx -> sx]; the OCaml driver only parses/prints sx. *)
From Coq Require Import List ZArith QArith Bool.
Import ListNotations.
Open Scope Z_scope.

Inductive sx := SZ (z : Z) | SL (l : list sx).

Definition sx_fail : sx := SL [SZ (-999)].

Definition dz (s : sx) : option Z := match s with SZ z => Some z | _ => None end.
Definition dnat (s : sx) : option nat :=
  match s with SZ z => if z <? 0 then None else Some (Z.to_nat z) | _ => None end.
Definition dbool (s : sx) : option bool :=
  match s with SZ 0 => Some false | SZ 1 => Some true | _ => None end.

Fixpoint opt_all {A} (l : list (option A)) : option (list A) :=
  match l with
  | [] => Some []
  | None :: _ => None
  | Some x :: t => match opt_all t with Some r => Some (x :: r) | None => None end
  end.

Definition dlist {A} (f : sx -> option A) (s : sx) : option (list A) :=
  match s with SL l => opt_all (map f l) | _ => None end.

Definition dq (s : sx) : option Q :=
  match s with
  | SL [SZ n; SZ d] => if 0 <? d then Some (Qmake n (Z.to_pos d)) else None
  | _ => None
  end.

(** optional value: SL [] = None, SL [x] = Some x *)
Definition dopt {A} (f : sx -> option A) (s : sx) : option (option A) :=
  match s with
  | SL [] => Some None
  | SL [x] => match f x with Some v => Some (Some v) | None => None end
  | _ => None
  end.

Definition ez (z : Z) : sx := SZ z.
Definition enat (n : nat) : sx := SZ (Z.of_nat n).
Definition ebool (b : bool) : sx := SZ (if b then 1 else 0).
Definition elist {A} (f : A -> sx) (l : list A) : sx := SL (map f l).
Definition eq_ (q : Q) : sx := let r := Qred q in SL [SZ (Qnum r); SZ (Zpos (Qden r))].
Definition eopt {A} (f : A -> sx) (o : option A) : sx :=
  match o with None => SL [] | Some x => SL [f x] end.

Notation "'do' x <- e ; k" := (match e with Some x => k | None => sx_fail end)
  (at level 200, x pattern, e at level 100, k at level 200).
