(** Real-number model of the update rules of the native evolution strategies
    (ribs/emitters/opt/_cma_es.py, _sep_cma_es.py, _lm_ma_es.py).  Definitions only, no proofs
    (Proofs/OptRealProofs.v).  Not extracted: the tie to the Python code is harness/c18_util.py, a line-by-line
    numpy transcription compared with the real optimizers after every tell.

    Vectors are [nat -> R] read on the indices [0 .. dim-1], matrices [nat -> nat -> R]; every definition
    follows the statement order of the Python method it models.  Things the model leaves open on purpose:
    * [isq] = [self.cov.invsqrt] of CMA-ES is an INPUT of every tell (the code uses a lazily refreshed, possibly
      stale C^(-1/2) computed by numpy.linalg.eigh): all theorems hold for every matrix;
    * [values] = [ranking_values] is an input of every tell because the Python signature has it; the
      definitions never look at it ([check_stop] is the only consumer);
    * the solutions of a generation ([self._solutions], and LM-MA-ES's [self._solution_z]) are inputs of the tell
      (they are produced by [ask], Model/Opt.v). *)
From Coq Require Import Reals List Arith.
From PV Require Import Base.RSum.
Import ListNotations.
Open Scope R_scope.

Definition vec := nat -> R.
Definition mat := nat -> nat -> R.

(** * _calc_strat_params *)
(** [np.log(num_parents + 0.5) - np.log(np.arange(1, num_parents + 1))] *)
Definition raw_weight (mu i : nat) : R := ln (INR mu + 1 / 2) - ln (INR i).
Definition raw_weights (mu : nat) : list R := map (raw_weight mu) (seq 1 mu).
(** [weights = weights / np.sum(weights)] *)
Definition weights (mu : nat) : list R := map (fun w => w / rsum (raw_weights mu)) (raw_weights mu).
(** [mueff = np.sum(weights)**2 / np.sum(weights**2)] *)
Definition mueff (mu : nat) : R :=
  (rsum (weights mu) * rsum (weights mu)) / rsum (map (fun w => w * w) (weights mu)).

Definition cma_cc (n me : R) : R := (4 + me / n) / (n + 4 + 2 * me / n).
Definition es_cs (n me : R) : R := (me + 2) / (n + me + 5).
Definition cma_c1 (n me : R) : R := 2 / ((n + 13 / 10) * (n + 13 / 10) + me).
Definition cma_cmu (n me : R) : R :=
  Rmin (1 - cma_c1 n me) (2 * (me - 2 + 1 / me) / ((n + 2) * (n + 2) + me)).

(** sep-CMA-ES: [cc_sep], [c1_sep = c1 * _conedf(n, mueff, n)], [cmu_sep = min(1 - c1_sep, _cmudf(n, mueff, 0))] *)
Definition sep_cc (n me : R) : R := (1 + 1 / n + me / n) / (sqrt n + 1 / n + 2 * me / n).
Definition sep_c1 (n me : R) : R := cma_c1 n me * (1 / (n + 2 * sqrt n + me / n)).
Definition sep_cmu (n me : R) : R :=
  Rmin (1 - sep_c1 n me) ((0 + me + 1 / me - 2) / (n + 4 * sqrt n + me / 2)).

(** [damps = 1 + 2 * max(0, sqrt((mueff - 1) / (n + 1)) - 1) + cs] *)
Definition es_damps (n me cs : R) : R := 1 + 2 * Rmax 0 (sqrt ((me - 1) / (n + 1)) - 1) + cs.

(** * pieces of tell shared by CMA-ES and sep-CMA-ES *)
(** [self._solutions[ranking_indices][:num_parents]] *)
Definition select_parents (sols : nat -> vec) (ranking : list nat) (mu : nat) : list vec :=
  firstn mu (map sols ranking).

(** [np.sum(parents * np.expand_dims(weights, axis=1), axis=0)] *)
Definition recombine (w : list R) (par : list vec) : vec :=
  fun k => rsum (map (fun wp => fst wp * snd wp k) (combine w par)).

Definition sqnorm (dim : nat) (v : vec) : R := sumn dim (fun k => v k * v k).

(** [left = sum(ps^2) / n / (1 - (1 - cs)**(2 * current_eval / batch_size))], [right = 2 + 4/(n+1)],
    [hsig = 1 if left < right else 0] *)
Definition hsig_of (dim batch evals : nat) (cs : R) (ps : vec) : R :=
  let n := INR dim in
  let left := sqnorm dim ps / n / (1 - Rpower (1 - cs) (2 * INR evals / INR batch)) in
  let right := 2 + 4 / (n + 1) in
  if Rlt_dec left right then 1 else 0.

(** [c1a = c1 * (1 - (1 - hsig**2) * cc * (2 - cc))] *)
Definition c1a_of (c1 cc hsig : R) : R := c1 * (1 - (1 - hsig * hsig) * cc * (2 - cc)).

(** [sigma *= exp(min(1, cn * (sum_square_ps / n - 1) / 2))] with [cn = cs / damps] *)
Definition sigma_next (dim : nat) (sigma cs damps : R) (ps : vec) : R :=
  sigma * exp (Rmin 1 (cs / damps * (sqnorm dim ps / INR dim - 1) / 2)).

(** [np.einsum("ki,kj", weighted_ys, ys)] with [weighted_ys = ys * weights[:, None]] *)
Definition rank_mu (w : list R) (ys : list vec) : mat :=
  fun i j => rsum (map (fun wy => fst wy * snd wy i * snd wy j) (combine w ys)).

(** [_calc_cov_update]: [cov * (1 - c1a - cmu * sum(weights)) + (c1 * outer(pc, pc)) * c1 + rank_mu * cmu / sigma**2]
    (the rank-one term carries [c1] twice in the code; the model follows the code) *)
Definition cov_next (C : mat) (c1a cmu c1 : R) (pc : vec) (sigma : R) (rm : mat) (w : list R) : mat :=
  fun i j => C i j * (1 - c1a - cmu * rsum w) + (c1 * (pc i * pc j)) * c1 + rm i j * cmu / (sigma * sigma).

(** the diagonal version of sep-CMA-ES: [rank_one_update = c1 * pc**2], [rank_mu = sum(weighted_ys * ys, axis=0)] *)
Definition rank_mu_diag (w : list R) (ys : list vec) : vec :=
  fun k => rsum (map (fun wy => fst wy * snd wy k * snd wy k) (combine w ys)).
Definition cov_next_diag (C : vec) (c1a cmu c1 : R) (pc : vec) (sigma : R) (rm : vec) (w : list R) : vec :=
  fun k => C k * (1 - c1a - cmu * rsum w) + (c1 * (pc k * pc k)) * c1 + rm k * cmu / (sigma * sigma).

(** what a tell receives: the stored samples, the ranking, the ranking values, the parent count;
    [t_isq]: CMA-ES's current [cov.invsqrt]; [t_zs]: LM-MA-ES's [_solution_z] *)
Record tell_in := {
  t_sols : nat -> vec;
  t_zs : nat -> vec;
  t_isq : mat;
  t_ranking : list nat;
  t_values : list R;
  t_mu : nat }.

(** * CMA-ES *)
Record cma := { c_mean : vec; c_sigma : R; c_ps : vec; c_pc : vec; c_cov : mat; c_evals : nat }.

Definition identity : mat := fun i j => if Nat.eqb i j then 1 else 0.

(** [reset(x0)]: every field is re-assigned, nothing of the previous state survives *)
Definition cma_init (sigma0 : R) (x0 : vec) : cma :=
  {| c_mean := x0; c_sigma := sigma0; c_ps := fun _ => 0; c_pc := fun _ => 0; c_cov := identity; c_evals := 0 |}.
Definition cma_reset (sigma0 : R) (s : cma) (x0 : vec) : cma := cma_init sigma0 x0.

(** [DecompMatrix.update_eigensystem] (called by ask): when the lazy gap has passed ([refresh]),
    [self.cov = np.maximum(self.cov, self.cov.T)]; eigenvalues / eigenbasis / invsqrt are sampling
    auxiliaries outside the model *)
Definition cma_ask (refresh : bool) (s : cma) : cma :=
  if refresh then
    {| c_mean := c_mean s; c_sigma := c_sigma s; c_ps := c_ps s; c_pc := c_pc s;
       c_cov := fun i j => Rmax (c_cov s i j) (c_cov s j i); c_evals := c_evals s |}
  else s.

Definition cma_tell (dim batch : nat) (s : cma) (t : tell_in) : cma :=
  let evals := (c_evals s + length (t_ranking t))%nat in
  if Nat.eqb (t_mu t) 0 then
    {| c_mean := c_mean s; c_sigma := c_sigma s; c_ps := c_ps s; c_pc := c_pc s; c_cov := c_cov s; c_evals := evals |}
  else
    let n := INR dim in
    let parents := select_parents (t_sols t) (t_ranking t) (t_mu t) in
    let w := weights (t_mu t) in
    let me := mueff (t_mu t) in
    let cc := cma_cc n me in
    let cs := es_cs n me in
    let c1 := cma_c1 n me in
    let cmu := cma_cmu n me in
    let damps := es_damps n me cs in
    let old_mean := c_mean s in
    let mean := recombine w parents in
    let y := fun k => mean k - old_mean k in
    let z := fun k => sumn dim (fun j => t_isq t k j * y j) in
    let ps := fun k => (1 - cs) * c_ps s k + (sqrt (cs * (2 - cs) * me) / c_sigma s) * z k in
    let hsig := hsig_of dim batch evals cs ps in
    let pc := fun k => (1 - cc) * c_pc s k + hsig * sqrt (cc * (2 - cc) * me) * y k in
    let ys := map (fun (p : vec) k => p k - old_mean k) parents in
    let c1a := c1a_of c1 cc hsig in
    {| c_mean := mean;
       c_sigma := sigma_next dim (c_sigma s) cs damps ps;
       c_ps := ps;
       c_pc := pc;
       c_cov := cov_next (c_cov s) c1a cmu c1 pc (c_sigma s) (rank_mu w ys) w;
       c_evals := evals |}.

Inductive cma_op := CAsk (refresh : bool) | CTell (t : tell_in) | CReset (x0 : vec).

Definition cma_step (dim batch : nat) (sigma0 : R) (s : cma) (o : cma_op) : cma :=
  match o with
  | CAsk r => cma_ask r s
  | CTell t => cma_tell dim batch s t
  | CReset x0 => cma_reset sigma0 s x0
  end.

Definition cma_run (dim batch : nat) (sigma0 : R) (x0 : vec) (h : list cma_op) : cma :=
  fold_left (cma_step dim batch sigma0) h (cma_init sigma0 x0).

(** * sep-CMA-ES: the covariance is a vector (the diagonal); [invsqrt = 1 / sqrt(cov)] of the CURRENT diagonal *)
Record sep := { s_mean : vec; s_sigma : R; s_ps : vec; s_pc : vec; s_cov : vec; s_evals : nat }.

Definition sep_init (sigma0 : R) (x0 : vec) : sep :=
  {| s_mean := x0; s_sigma := sigma0; s_ps := fun _ => 0; s_pc := fun _ => 0; s_cov := fun _ => 1; s_evals := 0 |}.
Definition sep_reset (sigma0 : R) (s : sep) (x0 : vec) : sep := sep_init sigma0 x0.

Definition sep_tell (dim batch : nat) (s : sep) (t : tell_in) : sep :=
  let evals := (s_evals s + length (t_ranking t))%nat in
  if Nat.eqb (t_mu t) 0 then
    {| s_mean := s_mean s; s_sigma := s_sigma s; s_ps := s_ps s; s_pc := s_pc s; s_cov := s_cov s; s_evals := evals |}
  else
    let n := INR dim in
    let parents := select_parents (t_sols t) (t_ranking t) (t_mu t) in
    let w := weights (t_mu t) in
    let me := mueff (t_mu t) in
    let cc := sep_cc n me in
    let cs := es_cs n me in
    let c1 := sep_c1 n me in
    let cmu := sep_cmu n me in
    let damps := es_damps n me cs in
    let old_mean := s_mean s in
    let mean := recombine w parents in
    let y := fun k => mean k - old_mean k in
    let z := fun k => (1 / sqrt (s_cov s k)) * y k in
    let ps := fun k => (1 - cs) * s_ps s k + (sqrt (cs * (2 - cs) * me) / s_sigma s) * z k in
    let hsig := hsig_of dim batch evals cs ps in
    let pc := fun k => (1 - cc) * s_pc s k + hsig * sqrt (cc * (2 - cc) * me) * y k in
    let ys := map (fun (p : vec) k => p k - old_mean k) parents in
    let c1a := c1a_of c1 cc hsig in
    {| s_mean := mean;
       s_sigma := sigma_next dim (s_sigma s) cs damps ps;
       s_ps := ps;
       s_pc := pc;
       s_cov := cov_next_diag (s_cov s) c1a cmu c1 pc (s_sigma s) (rank_mu_diag w ys) w;
       s_evals := evals |}.

Inductive es_op := ETell (t : tell_in) | EReset (x0 : vec).

Definition sep_step (dim batch : nat) (sigma0 : R) (s : sep) (o : es_op) : sep :=
  match o with ETell t => sep_tell dim batch s t | EReset x0 => sep_reset sigma0 s x0 end.
Definition sep_run (dim batch : nat) (sigma0 : R) (x0 : vec) (h : list es_op) : sep :=
  fold_left (sep_step dim batch sigma0) h (sep_init sigma0 x0).

(** * LM-MA-ES *)
Record lm := { l_mean : vec; l_sigma : R; l_ps : vec; l_m : nat -> vec; l_gens : nat }.

Definition lm_init (sigma0 : R) (x0 : vec) : lm :=
  {| l_mean := x0; l_sigma := sigma0; l_ps := fun _ => 0; l_m := fun _ _ => 0; l_gens := 0 |}.
Definition lm_reset (sigma0 : R) (s : lm) (x0 : vec) : lm := lm_init sigma0 x0.

(** [csigma = 2 * batch_size / n]; [cc_j = batch_size / (4**j * n)] *)
Definition lm_csigma (dim batch : nat) : R := 2 * INR batch / INR dim.
Definition lm_cc (dim batch j : nat) : R := INR batch / (4 ^ j * INR dim).

Definition lm_tell (dim batch : nat) (s : lm) (t : tell_in) : lm :=
  let gens := (l_gens s + 1)%nat in
  if Nat.eqb (t_mu t) 0 then
    {| l_mean := l_mean s; l_sigma := l_sigma s; l_ps := l_ps s; l_m := l_m s; l_gens := gens |}
  else
    let w := weights (t_mu t) in
    let me := mueff (t_mu t) in
    let parents := select_parents (t_sols t) (t_ranking t) (t_mu t) in
    let z_parents := select_parents (t_zs t) (t_ranking t) (t_mu t) in
    let z_mean := recombine w z_parents in
    let cs := lm_csigma dim batch in
    let ps := fun k => (1 - cs) * l_ps s k + sqrt (me * cs * (2 - cs)) * z_mean k in
    {| l_mean := recombine w parents;
       l_sigma := l_sigma s * exp (cs / 2 * (sqnorm dim ps / INR dim - 1));
       l_ps := ps;
       l_m := fun j k => (1 - lm_cc dim batch j) * l_m s j k
                         + sqrt (me * lm_cc dim batch j * (2 - lm_cc dim batch j)) * z_mean k;
       l_gens := gens |}.

Definition lm_step (dim batch : nat) (sigma0 : R) (s : lm) (o : es_op) : lm :=
  match o with ETell t => lm_tell dim batch s t | EReset x0 => lm_reset sigma0 s x0 end.
Definition lm_run (dim batch : nat) (sigma0 : R) (x0 : vec) (h : list es_op) : lm :=
  fold_left (lm_step dim batch sigma0) h (lm_init sigma0 x0).

(** * symmetric positive semi-definite, on the indices [0 .. dim-1] *)
Definition quad (dim : nat) (C : mat) (x : vec) : R :=
  sumn dim (fun i => sumn dim (fun j => x i * C i j * x j)).
Definition psd (dim : nat) (C : mat) : Prop := forall x : vec, 0 <= quad dim C x.
Definition symmetric (C : mat) : Prop := forall i j, C i j = C j i.

(** smallest / largest element of a non-empty list (for the hull statement) *)
Definition lmin (l : list R) : R := match l with [] => 0 | x :: t => fold_right Rmin x t end.
Definition lmax (l : list R) : R := match l with [] => 0 | x :: t => fold_right Rmax x t end.
