(** Model of ribs/visualize (executable definitions only): WHAT each plotting function hands to matplotlib.

    A picture is the data held by the artists the function creates:
      grid_archive_heatmap / cvt_archive_heatmap (1-D)   -> pcolormesh: boundary arrays + (y,x) colour matrix, blank = None (NaN)
      sliding_boundaries_archive_heatmap / proximity_archive_plot -> scatter offsets + colour array (+ vlines/hlines)
      cvt_archive_heatmap (2-D)  -> the Voronoi SITES with the objective / normalised colour value attached to each site
                                    (the regions themselves are scipy/Qhull/shapely output: checked geometrically by the harness)
      parallel_axes_plot         -> one poly-line per elite in first-axis coordinates + normalised colour value
    Inputs mirror what the code reads: index / objective / measures columns of archive.data(...) or of the df= frame,
    and the archive's dims, boundaries, lower_bounds, upper_bounds, centroids.
    Numbers are exact rationals (every finite float is one). *)
From Coq Require Import List Arith Bool QArith Lia.
From PV Require Import Base.ListUtil Base.MixedRadixViz Model.Store.
Import ListNotations.
Open Scope Q_scope.

(** * Inputs *)
Record elite := mkElite { e_index : nat; e_obj : Q; e_meas : list Q }.
Definition listing := list elite.

Record geometry := mkGeom {
  g_dims : list nat;                (* GridArchive / SlidingBoundariesArchive .dims *)
  g_boundaries : list (list Q);     (* .boundaries *)
  g_lower : list Q;                 (* .lower_bounds ([] = property raises: empty ProximityArchive) *)
  g_upper : list Q;                 (* .upper_bounds *)
  g_centroids : list (list Q) }.    (* CVTArchive.centroids *)

(** the archive (geometry + data() listing in occupied_list order) and the caller's data frame, if any *)
Record world := mkWorld { w_geom : geometry; w_elites : listing; w_frame : option listing }.

Record opts := mkOpts {
  o_df : bool;                      (* df= passed *)
  o_transpose : bool;               (* transpose_measures *)
  o_vmin : option Q; o_vmax : option Q;
  o_sort : bool;                    (* parallel_axes_plot sort_archive *)
  o_order : option (list nat);      (* parallel_axes_plot measure_order *)
  o_lines : bool;                   (* boundary_lw > 0 (sliding) / plot_centroids (cvt) *)
  o_bounds : option (list Q * list Q) }. (* proximity_archive_plot lower_bounds=, upper_bounds= *)

(** * Small helpers *)
Definition qnth (l : list Q) (i : nat) : Q := nth i l 0.
Definition pair2 (l : list Q) : Q * Q := (qnth l 0, qnth l 1).
Definition flip2 {A} (p : A * A) : A * A := (snd p, fst p).

Definition qmin (a b : Q) : Q := if Qle_bool a b then a else b.
Definition qmax (a b : Q) : Q := if Qle_bool a b then b else a.
Definition min_list (l : list Q) : option Q :=
  match l with [] => None | x :: t => Some (fold_left qmin t x) end.
Definition max_list (l : list Q) : option Q :=
  match l with [] => None | x :: t => Some (fold_left qmax t x) end.

(** [v if v is not None else default] *)
Definition pick (explicit dflt : option Q) : option Q :=
  match explicit with Some v => Some v | None => dflt end.

(** vmin = np.min(objective_batch) if vmin is None else vmin  (np.min of an empty array raises ValueError) *)
Definition limits_strict (vmin vmax : option Q) (objs : list Q) : result (Q * Q) :=
  match pick vmin (min_list objs), pick vmax (max_list objs) with
  | Some lo, Some hi => Ok (lo, hi)
  | _, _ => Err ValueError
  end.

(** the float literal 0.01 *)
Definition c001 : Q := 5764607523034235 # 576460752303423488.

Definition somes {A} (l : list (option A)) : list A :=
  flat_map (fun o => match o with Some x => [x] | None => [] end) l.

Definition all_below (n : nat) (idxs : list nat) : bool := forallb (fun i => Nat.ltb i n) idxs.

(** numpy fancy assignment  a[ks] = vs  (left to right, last write wins; [upd] ignores out-of-range keys,
    callers check the range where numpy would raise) *)
Definition scatter {A} (a : list A) (ks : list nat) (vs : list A) : list A :=
  fold_left (fun a kv => upd a (fst kv) (snd kv)) (combine ks vs) a.

(** m[ys, xs] = vs on a matrix stored as list of rows *)
Definition set2 {A} (m : list (list A)) (y x : nat) (v : A) : list (list A) :=
  upd m y (upd (nth y m []) x v).
Definition scatter2 {A} (m : list (list A)) (ks : list (nat * nat)) (vs : list A) : list (list A) :=
  fold_left (fun m kv => set2 m (fst (fst kv)) (snd (fst kv)) (snd kv)) (combine ks vs) m.

(** m.T for a matrix with [ncols] columns *)
Definition transpose {A} (d : A) (ncols : nat) (m : list (list A)) : list (list A) :=
  map (fun x => map (fun row => nth x row d) m) (seq 0 ncols).

(** * Pictures *)
Record heatmap := mkHeat {
  hm_xb : list Q; hm_yb : list Q;             (* QuadMesh coordinates: x and y boundary arrays *)
  hm_colors : list (list (option Q));         (* QuadMesh array, [y][x]; None = masked (blank) *)
  hm_xlim : Q * Q; hm_ylim : option (Q * Q);  (* axis limits set by the function *)
  hm_clim : option Q * option Q;              (* colour limits; None = nothing stored, not meaningful *)
  hm_markers : list (Q * Q) }.                (* centroid markers (cvt 1-D, plot_centroids) *)

Record scatterplot := mkScatter {
  sc_offsets : list (Q * Q); sc_array : list Q;
  sc_vlines : list (Q * (Q * Q));             (* x, (ymin, ymax) *)
  sc_hlines : list (Q * (Q * Q));             (* y, (xmin, xmax) *)
  sc_xlim : Q * Q; sc_ylim : Q * Q; sc_clim : Q * Q }.

Record voronoi := mkVor {
  vo_sites : list (Q * Q);                    (* Voronoi sites as drawn (flipped when transposed) *)
  vo_obj : list (option Q);                   (* objective attached to the region of each site; None = blank *)
  vo_t : list (option Q);                     (* value in [0,1] passed to the colormap *)
  vo_xlim : Q * Q; vo_ylim : Q * Q;           (* axis limits = default clip box *)
  vo_clim : option (Q * Q);
  vo_markers : list (Q * Q) }.

Record parallel := mkPar {
  pa_lines : list (list Q);                   (* y data of each line, in drawing order *)
  pa_objs : list Q;
  pa_t : list Q;                              (* Normalize(vmin, vmax, clip=True)(objective) *)
  pa_ylims : list (Q * Q);                    (* ylim of each (twin) axis *)
  pa_clim : option Q * option Q }.

Inductive picture := PHeat (h : heatmap) | PScatter (s : scatterplot) | PVor (v : voronoi) | PPar (p : parallel).

(** * _utils.archive_heatmap_1d *)
Definition heatmap_1d (g : geometry) (bnds : list Q) (cells : list (option Q)) (o : opts)
           (markers : list (Q * Q)) : heatmap :=
  mkHeat bnds [0; 1] [cells] (qnth (g_lower g) 0, qnth (g_upper g) 0) None
         (* vmin = np.nanmin(cell_objectives) if vmin is None else vmin *)
         (pick (o_vmin o) (min_list (somes cells)), pick (o_vmax o) (max_list (somes cells)))
         markers.

(** * grid_archive_heatmap *)
(** colors = np.full((y_dim, x_dim), nan); g = int_to_grid_index(index_batch); colors[g[:,1], g[:,0]] = objective_batch *)
Definition grid2d_colors (dx dy : nat) (idxs : list nat) (objs : list Q) : list (list (option Q)) :=
  let g := map (unravel [dx; dy]) idxs in
  scatter2 (repeat (repeat None dx) dy) (map (fun gi => (nth 1 gi O, nth 0 gi O)) g) (map Some objs).

Definition grid1d_cells (d : nat) (idxs : list nat) (objs : list Q) : list (option Q) :=
  let cell_idx := map (fun i => nth 0 (unravel [d] i) O) idxs in
  scatter (repeat None d) cell_idx (map Some objs).

Definition grid_heatmap (g : geometry) (l : listing) (o : opts) : result picture :=
  let idxs := map e_index l in
  let objs := map e_obj l in
  match g_dims g with
  | [d] =>
      if all_below d idxs   (* np.unravel_index raises ValueError on an out-of-range index *)
      then Ok (PHeat (heatmap_1d g (nth 0 (g_boundaries g) []) (grid1d_cells d idxs objs) o []))
      else Err ValueError
  | [dx; dy] =>
      if all_below (dx * dy) idxs then
        let colors := grid2d_colors dx dy idxs objs in
        let xb := nth 0 (g_boundaries g) [] in
        let yb := nth 1 (g_boundaries g) [] in
        let t := o_transpose o in
        let lo := if t then rev (g_lower g) else g_lower g in
        let up := if t then rev (g_upper g) else g_upper g in
        match limits_strict (o_vmin o) (o_vmax o) objs with
        | Err e => Err e
        | Ok (vlo, vhi) =>
            Ok (PHeat (mkHeat (if t then yb else xb) (if t then xb else yb)
                              (if t then transpose None dx colors else colors)
                              (qnth lo 0, qnth up 0) (Some (qnth lo 1, qnth up 1))
                              (Some vlo, Some vhi) []))
        end
      else Err ValueError
  | _ => Err ValueError
  end.

(** * cvt_archive_heatmap *)
(** np.argsort of the 1-D centroids (stable insertion; ties are not generated by the harness) *)
Fixpoint insert_idx (cs : list Q) (i : nat) (l : list nat) : list nat :=
  match l with
  | [] => [i]
  | j :: t => if Qle_bool (qnth cs i) (qnth cs j) then i :: l else j :: insert_idx cs i t
  end.
Definition argsort (cs : list Q) : list nat := fold_right (insert_idx cs) [] (seq 0 (length cs)).

(** inv_idx = zeros; for i, x in enumerate(centroid_sort_idx): inv_idx[x] = i *)
Definition inverse_perm (p : list nat) : list nat :=
  scatter (repeat O (length p)) p (seq 0 (length p)).

(** (s[:-1] + s[1:]) / 2 *)
Definition midpoints (s : list Q) : list Q :=
  map (fun ab => (fst ab + snd ab) / 2) (combine (removelast s) (tl s)).

Definition cvt1d_cells (cs : list Q) (idxs : list nat) (objs : list Q) : list (option Q) :=
  let inv := inverse_perm (argsort cs) in
  let selected_inv_idx := map (fun i => nth i inv O) idxs in
  scatter (repeat None (length cs)) selected_inv_idx (map Some objs).

Definition qclip01 (t : Q) : Q := if Qle_bool t 0 then 0 else if Qle_bool 1 t then 1 else t.

Definition cvt_heatmap (g : geometry) (l : listing) (o : opts) : result picture :=
  let idxs := map e_index l in
  let objs := map e_obj l in
  match g_lower g with
  | [_] =>
      let cs := map (fun c => qnth c 0) (g_centroids g) in
      let sorted := map (qnth cs) (argsort cs) in
      let bnds := [qnth (g_lower g) 0] ++ midpoints sorted ++ [qnth (g_upper g) 0] in
      if all_below (length cs) idxs   (* inv_idx[index_batch] raises IndexError *)
      then Ok (PHeat (heatmap_1d g bnds (cvt1d_cells cs idxs objs) o
                                 (if o_lines o then map (fun c => (c, 1 # 2)) cs else [])))
      else Err IndexError
  | [_; _] =>
      let t := o_transpose o in
      let lo := if t then rev (g_lower g) else g_lower g in
      let up := if t then rev (g_upper g) else g_upper g in
      let sites0 := map pair2 (g_centroids g) in
      let sites := if t then map flip2 sites0 else sites0 in
      (* pt_to_obj = dict(zip(index_batch, objective_batch)); region of point pt_idx gets pt_to_obj[pt_idx] *)
      let site_obj := scatter (repeat None (length sites)) idxs (map Some objs) in
      let drawn := somes site_obj in
      let '(ts, clim) :=
        match pick (o_vmin o) (min_list drawn), pick (o_vmax o) (max_list drawn) with
        | Some a, Some b =>
            (* if min_obj == max_obj: min_obj, max_obj = min_obj - 0.01, max_obj + 0.01 *)
            let a' := if Qeq_bool a b then a - c001 else a in
            let b' := if Qeq_bool a b then b + c001 else b in
            (map (option_map (fun ob => qclip01 ((ob - a') / (b' - a')))) site_obj, Some (a', b'))
        | _, _ => (map (fun _ => None) site_obj, None)
        end in
      Ok (PVor (mkVor sites site_obj ts (qnth lo 0, qnth up 0) (qnth lo 1, qnth up 1) clim
                      (if o_lines o then sites else [])))
  | _ => Err ValueError
  end.

(** * sliding_boundaries_archive_heatmap *)
Definition sliding_heatmap (g : geometry) (l : listing) (o : opts) : result picture :=
  let objs := map e_obj l in
  match g_dims g with
  | [_; _] =>
      let t := o_transpose o in
      let pts0 := map (fun e => pair2 (e_meas e)) l in
      let pts := if t then map flip2 pts0 else pts0 in
      let xb0 := nth 0 (g_boundaries g) [] in
      let yb0 := nth 1 (g_boundaries g) [] in
      let xb := if t then yb0 else xb0 in
      let yb := if t then xb0 else yb0 in
      let lo := if t then rev (g_lower g) else g_lower g in
      let up := if t then rev (g_upper g) else g_upper g in
      match limits_strict (o_vmin o) (o_vmax o) objs with
      | Err e => Err e
      | Ok clim =>
          Ok (PScatter (mkScatter pts objs
                (* vlines along x extend between the y bounds and vice versa *)
                (if o_lines o then map (fun x => (x, (qnth lo 1, qnth up 1))) xb else [])
                (if o_lines o then map (fun y => (y, (qnth lo 0, qnth up 0))) yb else [])
                (qnth lo 0, qnth up 0) (qnth lo 1, qnth up 1) clim))
      end
  | _ => Err ValueError
  end.

(** * proximity_archive_plot *)
Definition proximity_plot (g : geometry) (l : listing) (o : opts) : result picture :=
  let objs := map e_obj l in
  let t := o_transpose o in
  let pts0 := map (fun e => pair2 (e_meas e)) l in
  let pts := if t then map flip2 pts0 else pts0 in
  let bounds :=
    match o_bounds o with
    | Some (lo, up) => Ok (lo, up)
    | None =>
        match g_lower g with
        | [] => Err RuntimeError    (* archive.lower_bounds of an empty ProximityArchive *)
        | _ => Ok (map (fun x => x - c001) (g_lower g), map (fun x => x + c001) (g_upper g))
        end
    end in
  match bounds with
  | Err e => Err e
  | Ok (lo0, up0) =>
      let lo := if t then rev lo0 else lo0 in
      let up := if t then rev up0 else up0 in
      match limits_strict (o_vmin o) (o_vmax o) objs with
      | Err e => Err e
      | Ok clim => Ok (PScatter (mkScatter pts objs [] [] (qnth lo 0, qnth up 0) (qnth lo 1, qnth up 1) clim))
      end
  end.

(** * parallel_axes_plot *)
Definition select {A} (d : A) (cols : list nat) (l : list A) : list A := map (fun c => nth c l d) cols.

(** df.sort_values("objective"): ascending, stable *)
Fixpoint insert_obj (e : elite) (l : listing) : listing :=
  match l with
  | [] => [e]
  | h :: t => if Qle_bool (e_obj e) (e_obj h) then e :: l else h :: insert_obj e t
  end.
Definition sort_by_obj (l : listing) : listing := fold_right insert_obj [] l.

(** matplotlib.colors.Normalize(vmin, vmax, clip=True)(x) for vmin <= vmax *)
Definition normalize (vmin vmax x : Q) : Q :=
  if Qeq_bool vmin vmax then 0
  else (qmin (qmax x vmin) vmax - vmin) / (vmax - vmin).

(** value y of axis j (range [lb, ub]) in the coordinates of axis 0 (range [lb0, lb0 + r0]) *)
Definition to_axis0 (lb0 r0 : Q) (y lb ub : Q) : Q := (y - lb) / (ub - lb) * r0 + lb0.

Fixpoint map3 {A B C D} (f : A -> B -> C -> D) (a : list A) (b : list B) (c : list C) : list D :=
  match a, b, c with
  | x :: a', y :: b', z :: c' => f x y z :: map3 f a' b' c'
  | _, _, _ => []
  end.

Definition normalize_row (lo up : list Q) (row : list Q) : list Q :=
  match row with
  | [] => []
  | y0 :: rest => y0 :: map3 (to_axis0 (qnth lo 0) (qnth up 0 - qnth lo 0)) rest (tl lo) (tl up)
  end.

(** [df] is the frame the function works on; sorting yields a sorted COPY (the caller's frame is not touched) *)
Definition parallel_axes (g : geometry) (df : listing) (o : opts) : result picture :=
  let m := length (g_lower g) in
  let cols := match o_order o with None => seq 0 m | Some c => c end in
  match cols with
  | [] => Err ValueError
  | _ =>
      if negb (all_below m cols) then Err ValueError
      else
        let lo := select 0 cols (g_lower g) in
        let up := select 0 cols (g_upper g) in
        let vmin := pick (o_vmin o) (min_list (map e_obj df)) in
        let vmax := pick (o_vmax o) (max_list (map e_obj df)) in
        let df' := if o_sort o then sort_by_obj df else df in
        let objs := map e_obj df' in
        let ys := map (fun e => select 0 cols (e_meas e)) df' in
        let ts := match vmin, vmax with
                  | Some a, Some b => map (normalize a b) objs
                  | _, _ => []
                  end in
        Ok (PPar (mkPar (map (normalize_row lo up) ys) objs ts (combine lo up) (vmin, vmax)))
  end.

(** * The public entry points as operations on the world *)
Inductive kind := KGrid | KCvt | KSliding | KProximity | KParallel.

(** if df is None: archive.data(...) else: the frame *)
Definition source (w : world) (o : opts) : listing :=
  if o_df o then match w_frame w with Some f => f | None => w_elites w end else w_elites w.

Definition draw (k : kind) (g : geometry) (l : listing) (o : opts) : result picture :=
  match k with
  | KGrid => grid_heatmap g l o
  | KCvt => cvt_heatmap g l o
  | KSliding => sliding_heatmap g l o
  | KProximity => proximity_plot g l o
  | KParallel => parallel_axes g l o
  end.

(** a plotting call returns the (new) world and the picture *)
Definition plot (w : world) (c : kind * opts) : world * result picture :=
  (w, draw (fst c) (w_geom w) (source w (snd c)) (snd c)).

Definition plot_all (w : world) (cs : list (kind * opts)) : world :=
  fold_left (fun w c => fst (plot w c)) cs w.
