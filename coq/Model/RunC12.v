(** Executable runner of the alias calculus and of the read-path functions.
    mode 0: [0; ep; variant; [layout codes]]  -> abstract effects of the C12-required program of that entry point
    mode 2: same input                         -> abstract effects of the as-is program (unchanged code)
    mode 1: [1; capacity; ops]  ops = [0; index; id] (accepted write) | [1] (clear)
            -> every read path decoded to a list of [index; id] *)
From Coq Require Import List ZArith Bool Arith.
From PV Require Import Base.ListUtil Model.Store Model.Sx Model.Alias.
Import ListNotations.
Open Scope Z_scope.

Definition dlayout (s : sx) : option layout :=
  match s with
  | SZ 0 => Some ExactNdarray | SZ 1 => Some ViewOf | SZ 2 => Some NonContiguous | SZ 3 => Some OtherDtype | SZ 4 => Some PyList
  | _ => None
  end.

Definition effects (a : astate) (n : nat) : sx :=
  SL [SL (map (fun i => SL [ebool (arg_mutated a i); ebool (arg_retained a i); ebool (arg_returned a i); ebool (arg_exposed a i)])
              (seq 0 n));
      SL [ebool (rw_store a); ebool (ro_store a); ebool (rw_self a); ebool (exp_store a); ebool (a_halt a)]].

Definition run_alias (asis : bool) (e v la : sx) : sx :=
  match dnat e, dnat v, dlist dlayout la with
  | Some en, Some vn, Some l =>
      match ep_of_nat en with
      | Some ee =>
          let n := length l in
          if existsb (Nat.eqb n) (arities ee) && Nat.ltb vn (n_variants ee)
          then effects (arun (prog_gen (negb asis) ee vn n) (a_init l)) n
          else sx_fail
      | None => sx_fail
      end
  | _, _, _ => sx_fail
  end.

(** read paths: rows are candidate ids, encoded redundantly into three fields *)
Definition rp_fields : list nat := [0; 1; 2]%nat.            (* solution (3), objective (scalar), extra (2) *)
Definition rp_dim (fl : nat) : nat := match fl with O => 3 | 1 => 1 | _ => 2 end%nat.
Definition rp_proj (fl : nat) (r : Z) : list Z :=
  match fl with O => [2 * r; 2 * r + 1; - (2 * r)] | 1%nat => [r] | _ => [4 * r; 4 * r + 1] end.

Definition dec_field (fl : nat) (v : list Z) : Z :=
  match fl, v with
  | O, [a; b; c] => if (b =? a + 1) && (c =? - a) && (a mod 2 =? 0) then a / 2 else -1
  | 1%nat, [a] => a
  | 2%nat, [a; b] => if (b =? a + 1) && (a mod 4 =? 0) then a / 4 else -1
  | _, _ => -1
  end.

Definition dec_elite (e : elite Z) : sx :=
  let ids := map (fun p => dec_field (fst p) (snd p)) (snd e) in
  let id := match ids with
            | [a; b; c] => if (a =? b) && (b =? c) then a else -1
            | _ => -1
            end in
  SL [enat (fst e); ez id].

Fixpoint rp_run (s : store Z) (ops : list sx) : option (store Z) :=
  match ops with
  | [] => Some s
  | SL [SZ 0; i; r] :: t =>
      match dnat i, dz r with
      | Some ii, Some rr => rp_run (fst (add s [ii] [rr] [] true)) t
      | _, _ => None
      end
  | SL [SZ 1] :: t => rp_run (clear s) t
  | _ => None
  end.

Definition run_readpaths (c ops : sx) : sx :=
  match dnat c, ops with
  | Some cc, SL l =>
      match rp_run (init cc) l with
      | None => sx_fail
      | Some s =>
          let df := read_pandas 0 rp_fields rp_dim rp_proj 0 s in
          SL [elist dec_elite (elites_of_dict (read_dict rp_fields rp_proj 0 s));
              elist dec_elite (elites_of_tuple rp_fields (read_tuple rp_fields rp_proj 0 s));
              elist dec_elite (transpose_rows (olist s) (map (fun fl => (fl, read_single rp_proj 0 s fl)) rp_fields));
              elist dec_elite (read_iter rp_fields rp_proj 0 s);
              elist (fun p => SL [enat (fst p); ez (snd p)])
                    (combine (snd df) (match filter (fun c => Nat.eqb (fst (fst c)) 1) (fst df) with
                                       | c :: _ => snd c | [] => [] end));
              elist dec_elite (transpose_rows (snd df) (map (fun fl => (fl, df_get_field 0 df fl)) rp_fields));
              elist dec_elite (df_iterelites 0 rp_fields df)]
      end
  | _, _ => sx_fail
  end.

Definition run_C12 (inp : sx) : sx :=
  match inp with
  | SL [SZ 0; e; v; la] => run_alias false e v la
  | SL [SZ 2; e; v; la] => run_alias true e v la
  | SL [SZ 1; c; ops] => run_readpaths c ops
  | _ => sx_fail
  end.
