(** Executable runner for the ArchiveBase model (payload = candidate id in Z). *)
From Coq Require Import List ZArith QArith Bool.
From PV Require Import Base.ListUtil Base.QUtil Model.Store Model.Archive Model.Sx Model.RunC13.
Import ListNotations.
Open Scope Z_scope.

Definition dcand (s : sx) : option (cand Z) :=
  match s with
  | SL [c; o; p] => match dnat c, dq o, dz p with
                    | Some cc, Some oo, Some pp => Some (mkCand cc oo pp) | _, _, _ => None end
  | _ => None
  end.

Definition dcfg (s : sx) : option cfg :=
  match s with
  | SL [n; t; l; o] => match dnat n, dopt dq t, dq l, dq o with
                       | Some nn, Some tm, Some ll, Some oo => Some (mkCfg nn tm ll oo) | _, _, _, _ => None end
  | _ => None
  end.

Definition erow_ (r : row Z) : sx := SL [eq_ (r_obj r); eq_ (r_thr r); ez (r_pay r)].
Definition eirow (p : nat * row Z) : sx := SL [enat (fst p); erow_ (snd p)].
Definition eiorow (p : nat * option (row Z)) : sx := SL [enat (fst p); eopt erow_ (snd p)].

Definition estats (a : archive Z) : sx :=
  let s := a_stats a in
  SL [enat (st_num s); eq_ (st_cov s); eq_ (st_qd s); eq_ (st_norm s); eopt eq_ (st_max s);
      eopt eq_ (st_mean s); eopt eirow (a_best a); eq_ (a_sum a); enat (len (a_store a))].

Definition drow (s : sx) : option (nat * row Z) :=
  match s with
  | SL [i; o; t; p] => match dnat i, dq o, dq t, dz p with
                       | Some ii, Some oo, Some th, Some pp => Some (ii, mkRow oo th pp) | _, _, _, _ => None end
  | _ => None
  end.

(** load an observed implementation state (step-wise simulation mode of the harness) *)
Definition load_state (c : cfg) (rows : list (nat * row Z)) (sum : Q) (omax : option Q)
           (best : option (nat * row Z)) : archive Z :=
  let s := fst (add_raw (init (cells c)) (map fst rows) (map snd rows) true) in
  let n := len s in
  mkArch s sum
         (mkStats n (qnat n / qnat (cells c))%Q (sum - qnat n * offset c)%Q
                  ((sum - qnat n * offset c) / qnat (cells c))%Q omax
                  (if Nat.eqb n 0 then None else Some (sum / qnat n)%Q))
         best.

Definition arch_op (c : cfg) (a : archive Z) (o : sx) : archive Z * sx :=
  match o with
  | SL [SZ 0; l] =>
      match dlist dcand l with
      | Some cs => let '(a', (st, vl)) := add c a cs in (a', SL [elist ez st; elist eq_ vl])
      | None => (a, sx_fail)
      end
  | SL [SZ 1; x] =>
      match dcand x with
      | Some xx => let '(a', (st, vl)) := add_single c a xx in (a', SL [ez st; eq_ vl])
      | None => (a, sx_fail)
      end
  | SL [SZ 2] => (clear c a, SL [])
  | SL [SZ 3; q] =>
      match dlist dnat q with
      | Some qq => (a, elist (fun p => SL [ebool (fst p); eopt eirow (snd p)]) (retrieve_cells a qq))
      | None => (a, sx_fail)
      end
  | SL [SZ 4] => (a, elist eiorow (elites a))
  | SL [SZ 5] => (a, estats a)
  | SL [SZ 6; k] =>
      match dlist dnat k with
      | Some kk => (a, eres (elist eiorow) (sample a kk))
      | None => (a, sx_fail)
      end
  | SL [SZ 7; rows; sm; om; b] =>
      match dlist drow rows, dq sm, dopt dq om, dopt drow b with
      | Some rr, Some ss, Some oo, Some bb => (load_state c rr ss oo bb, SL [])
      | _, _, _, _ => (a, sx_fail)
      end
  | _ => (a, sx_fail)
  end.

Fixpoint arch_ops (c : cfg) (a : archive Z) (ops : list sx) : list sx :=
  match ops with
  | [] => []
  | o :: t => let '(a', out) := arch_op c a o in out :: arch_ops c a' t
  end.

Definition run_ARCH (inp : sx) : sx :=
  match inp with
  | SL [c; SL ops] =>
      match dcfg c with
      | Some cc => SL (arch_ops cc (arch_init Z cc) ops)
      | None => sx_fail
      end
  | _ => sx_fail
  end.
