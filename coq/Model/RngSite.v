(** RNG construction / use sites as found by the static inventory scan of ribs/ (harness/c09_inventory.py).
    Definitions only.  The scan emits [Generated/RngInventory.v : list site] on every run from the
    current source; [Checked/RngRefine.v] evaluates [all_sites_seeded] on it. *)
From Coq Require Import List ZArith Bool String.
From PV Require Import Model.Rng.
Import ListNotations.

Inductive site_kind :=
  | KDefaultRng      (* np.random.default_rng(e) *)
  | KSeedSequence    (* np.random.SeedSequence(e) *)
  | KSpawn           (* <SeedSequence>.spawn(n) *)
  | KBitGen          (* np.random.Generator(...) / PCG64(e) / RandomState(e) / random.Random(e): explicit object *)
  | KLegacyNp        (* np.random.<anything else>(...): the legacy global RandomState *)
  | KPyRandom        (* random.<function>(...): Python's module-level generator *)
  | KThirdParty      (* a stochastic third-party constructor from the allow-list table *)
  | KForward         (* a call of a ribs callable that has a [seed] parameter (seed forwarding) *)
  | KAlias           (* np.random / random (or a member) used as a value: the scan cannot follow it *)
  | KUnknown.        (* anything else the scan does not understand *)

(** where the seed expression of the site comes from, by data flow inside the enclosing function *)
Inductive seed_src :=
  | SrcParam          (* the enclosing function's [seed] parameter *)
  | SrcSeedSeq        (* a SeedSequence built from / equal to the [seed] parameter *)
  | SrcSpawn          (* a child of such a SeedSequence (seed_sequence.spawn(n)) *)
  | SrcAttr           (* self._seed, assigned from the [seed] parameter in the same class *)
  | SrcKwargs         (* forwarded wholesale through a caller-supplied **kwargs dict *)
  | SrcOwnedGen       (* a generator that is itself built from the seed (self._rng; a randn closure over it) *)
  | SrcDeterministic  (* the constructor is told not to randomise (Sobol(scramble=False)) *)
  | SrcNone           (* no seed / None: fresh OS entropy or the library's global default *)
  | SrcLiteral        (* a constant: reproducible but ignores the component's seed *)
  | SrcUnknown.

Record site := mkSite {
  st_file : string; st_line : nat; st_scope : string;
  st_kind : site_kind; st_callee : string; st_src : seed_src
}.

Definition src_seeded (s : seed_src) : bool :=
  match s with
  | SrcParam | SrcSeedSeq | SrcSpawn | SrcAttr | SrcKwargs | SrcOwnedGen | SrcDeterministic => true
  | SrcNone | SrcLiteral | SrcUnknown => false
  end.

Definition site_seeded (s : site) : bool :=
  match st_kind s with
  | KLegacyNp | KPyRandom | KAlias | KUnknown => false
  | _ => src_seeded (st_src s)
  end.

Definition all_sites_seeded (l : list site) : bool := forallb site_seeded l.

(** which source an execution of the site reads, [g] being the generator the enclosing component
    built from its seed.  Sites the scan does not understand are given the worst case. *)
Definition resolve (s : site) (g : nat) : src :=
  match st_kind s with
  | KLegacyNp => NpGlobal
  | KPyRandom => PyGlobal
  | KAlias | KUnknown => OsEntropy
  | _ => if src_seeded (st_src s) then Own g else OsEntropy
  end.

(** a component operation written as the list of site executions it performs *)
Definition site_use := (site * nat * Z)%type.
Definition site_prog (us : list site_use) : prog :=
  map (fun u : site_use => let '(s, g, n) := u in Draw (resolve s g) n) us.
