(** The conversions ribs/_utils.py applies to one argument, as harness/py2v_validate.py reads them, and their rendering in the alias
    IR of Model/Alias.v. *)
From Coq Require Import List.
From PV Require Import Model.Alias.
Import ListNotations.

Inductive conv :=
  | CPlain      (* x = np.asarray(x) *)
  | CDtype      (* x = np.asarray(x, dtype=archive.dtypes[...])  |  x = x.astype(archive.dtypes[...], copy=False) *)
  | CScalar.    (* x = np_scalar(x, dtype): a fresh scalar *)

Definition instr_of (r : var) (c : conv) : instr :=
  match c with
  | CPlain => IAsarray r r false
  | CDtype => IAsarray r r true
  | CScalar => ICopy r r
  end.

Definition prog_of (r : var) (cs : list conv) : list instr := map (instr_of r) cs.
