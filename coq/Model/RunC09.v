(** Executable runner for the constructor layer of Model/Rng.v: which generators the constructors of a
    configuration create, with which stream identity and how far the constructor already advanced them.
    input : [seqs; archive; emitters]
      seqs     = [[entropy; spawn_key] ...]                 the user's SeedSequence objects
      seed     = [0; z] (int) | [1; k] (the k-th SeedSequence object)
      archive  = [kind; seed; cells; measure_dim],  kind = [0] Grid | [1; method; samples] CVT | [2] Sliding | [3] Proximity,
                 method = 0 kmeans (samples drawn) | 1 kmeans (samples given) | 2 random | 3 sobol | 4 scrambled_sobol | 5 halton | 6 custom
      emitter  = [0; seed; b; d; init] Gaussian | [1; seed; b; d; init] IsoLine | [2; op; seed; b; d; init] GeneticAlgorithm
               | [3; seed; b; d; init; isolinedd; mgrad] GradientOperator | [4; seed; es; ranker; b; d] EvolutionStrategy
               | [5; seed; es; ranker; b] GradientArborescence
      es = 0 cma | 1 sep-cma | 2 lm-ma | 3 openai (mirror) | 4 openai (no mirror) | 5 pycma ;  ranker = 0 imp 1 2imp 2 obj 3 2obj 4 rd 5 2rd 6 nov 7 density
    output: [1; [[component; role; entropy; spawn_key; cursor] ...]] in creation order, or [0] when [build] fails (dangling SeedSequence index);
            role = 0 archive 1 emitter 2 operator 3 optimizer 4 ranker 5 third-party sampler (seeded with the same seed, no numpy Generator object)
    With a fourth element [history] the footprints are evaluated as well:
      op = [0; empty; active; extra] Scheduler.ask / BanditScheduler.ask | [1; empty] ask_dqd | [2; restarted] tell | [3] tell_dqd
         | [4; n; empty] sample_elites(n) | [5; iters; pts] cqd_score
    output: [1; table; [[[component; role] ...] ...]] -- per op, the generators the compiled program draws a positive number of
            variates from (in program order, duplicates kept). *)
From Coq Require Import List ZArith Bool.
From PV Require Import Base.ListUtil Model.Sx Model.Rng.
Import ListNotations.
Open Scope Z_scope.

Definition dseedv (s : sx) : option seedv :=
  match s with
  | SL [SZ 0; SZ z] => Some (SInt z)
  | SL [SZ 1; k] => option_map SRef (dnat k)
  | _ => None
  end.

Definition dseqid (s : sx) : option seedid :=
  match s with
  | SL [SZ e; k] => match dlist dnat k with Some key => Some (e, key) | None => None end
  | _ => None
  end.

Definition dakind (s : sx) : option archive_kind :=
  match s with
  | SL [SZ 0] => Some AGrid
  | SL [SZ 1; SZ 0; SZ n] => Some (ACvt (CKmeans n))
  | SL [SZ 1; SZ 1; _] => Some (ACvt CKmeansCustom)
  | SL [SZ 1; SZ 2; _] => Some (ACvt CRandom)
  | SL [SZ 1; SZ 3; _] => Some (ACvt CSobol)
  | SL [SZ 1; SZ 4; _] => Some (ACvt CScrambledSobol)
  | SL [SZ 1; SZ 5; _] => Some (ACvt CHalton)
  | SL [SZ 1; SZ 6; _] => Some (ACvt CCustom)
  | SL [SZ 2] => Some ASliding
  | SL [SZ 3] => Some AProximity
  | _ => None
  end.

Definition darchive (s : sx) : option archive_cfg :=
  match s with
  | SL [k; sd; SZ cells; SZ m] =>
      match dakind k, dseedv sd with
      | Some k', Some sd' => Some (mkArchive k' sd' cells m)
      | _, _ => None
      end
  | _ => None
  end.

Definition des (z : Z) : option es_kind :=
  match z with
  | 0 => Some EsCma | 1 => Some EsSepCma | 2 => Some EsLmMa | 3 => Some (EsOpenAi true) | 4 => Some (EsOpenAi false) | 5 => Some EsPyCma
  | _ => None
  end.

Definition drk (z : Z) : option ranker_kind :=
  match z with
  | 0 => Some RkImp | 1 => Some Rk2Imp | 2 => Some RkObj | 3 => Some Rk2Obj | 4 => Some RkRd | 5 => Some Rk2Rd | 6 => Some RkNov | 7 => Some RkDensity
  | _ => None
  end.

Definition demitter (s : sx) : option emitter_cfg :=
  match s with
  | SL [SZ 0; sd; SZ b; SZ d; i] =>
      match dseedv sd, dbool i with Some sd', Some i' => Some (EGaussian sd' b d i') | _, _ => None end
  | SL [SZ 1; sd; SZ b; SZ d; i] =>
      match dseedv sd, dbool i with Some sd', Some i' => Some (EIsoLine sd' b d i') | _, _ => None end
  | SL [SZ 2; SZ o; sd; SZ b; SZ d; i] =>
      match dseedv sd, dbool i with
      | Some sd', Some i' => Some (EGenetic (if o =? 0 then OpGaussian else OpIsoLine) sd' b d i')
      | _, _ => None
      end
  | SL [SZ 3; sd; SZ b; SZ d; i; il; mg] =>
      match dseedv sd, dbool i, dbool il, dbool mg with
      | Some sd', Some i', Some il', Some mg' => Some (EGradOp sd' b d i' il' mg')
      | _, _, _, _ => None
      end
  | SL [SZ 4; sd; SZ es; SZ rk; SZ b; SZ d] =>
      match dseedv sd, des es, drk rk with
      | Some sd', Some es', Some rk' => Some (EEvoStrat sd' es' rk' b d)
      | _, _, _ => None
      end
  | SL [SZ 5; sd; SZ es; SZ rk; SZ b] =>
      match dseedv sd, des es, drk rk with
      | Some sd', Some es', Some rk' => Some (EGradArbor sd' es' rk' b)
      | _, _, _ => None
      end
  | _ => None
  end.

Definition erole (r : role) : sx :=
  SZ match r with RArchive => 0 | REmitter => 1 | ROperator => 2 | ROpt => 3 | RRanker => 4 | RThird => 5 end.

Definition etagged (t : tagged) : sx :=
  let '(c, r, g) := t in
  SL [enat c; erole r; SZ (fst (g_sid g)); elist enat (snd (g_sid g)); SZ (g_pos g)].

Definition dpop (s : sx) : option pop :=
  match s with
  | SL [SZ 0; e; act; ex] =>
      match dbool e, dlist dbool act, dlist dz ex with
      | Some e', Some act', Some ex' => Some (PAsk e' act' ex')
      | _, _, _ => None
      end
  | SL [SZ 1; e] => option_map PAskDqd (dbool e)
  | SL [SZ 2; r] => option_map PTell (dlist dbool r)
  | SL [SZ 3] => Some PTellDqd
  | SL [SZ 4; SZ n; e] => option_map (PSample n) (dbool e)
  | SL [SZ 5; SZ i; SZ p] => Some (PCqd i p)
  | _ => None
  end.

(** the owned generators a compiled pyribs call really draws from *)
Definition drawn (ow : list (nat * role)) (o : op) : sx :=
  match o with
  | Py p =>
      SL (flat_map (fun c => match c with
                             | Draw (Own i) n =>
                                 if 0 <? n then match nth_error ow i with
                                                | Some (c', r) => [SL [enat c'; erole r]]
                                                | None => [SL [SZ (-1); SZ (-1)]]
                                                end
                                 else []
                             | Draw _ _ => [SL [SZ (-2); SZ (-2)]]
                             end) p)
  | _ => SL []
  end.

Definition run_C09 (s : sx) : sx :=
  match s with
  | SL [sq; a; es; hs] =>
      do seqs <- dlist dseqid sq;
      do arch <- darchive a;
      do ems <- dlist demitter es;
      do h <- dlist dpop hs;
      let cfg := mkConfig seqs arch ems in
      match build cfg with
      | Some t => SL [SZ 1; elist etagged t; SL (map (fun o => drawn (owners t) (compile cfg (owners t) o)) h)]
      | None => SL [SZ 0]
      end
  | SL [sq; a; es] =>
      do seqs <- dlist dseqid sq;
      do arch <- darchive a;
      do ems <- dlist demitter es;
      match build (mkConfig seqs arch ems) with
      | Some t => SL [SZ 1; elist etagged t]
      | None => SL [SZ 0]
      end
  | _ => sx_fail
  end.
