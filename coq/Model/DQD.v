(** Model of the DQD emitters (executable definitions only):
      ribs/emitters/_gradient_arborescence_emitter.py : GradientArborescenceEmitter.{ask_dqd, tell_dqd, ask, tell}
      ribs/emitters/_gradient_operator_emitter.py     : GradientOperatorEmitter.{ask_dqd, tell_dqd, ask}
      ribs/emitters/opt/_gradient_ascent_opt.py        : GradientAscentOpt.step
    over vectors of exact rationals.  Not modelled, supplied as inputs ("oracles"): the coefficient rows the
    evolution strategy / the Gaussian sampler produce, the ranking, the optimiser's stop signal, the
    gradient norms numpy computes ([np.linalg.norm], a square root), the recombination weights
    [ln(mu + 1/2) - ln i] (normalised; logarithms), the archive's sampled elite, and the new solution
    point of a gradient optimiser other than gradient ascent (Adam: C18). *)
From Coq Require Import List ZArith QArith Qabs Bool Arith.
From PV Require Import Base.ListUtil Base.QVec Model.Store Model.ESControl.
Import ListNotations.

(** gradient normalisation of tell_dqd: [jacobian /= (norm(jacobian, axis=-1) + epsilon)] *)
Definition normalise (eps : Q) (norms : list Q) (J : list vec) : list vec :=
  map2 vdiv J (map (fun m => m + eps)%Q norms).

Definition store_jac (norm : bool) (eps : Q) (norms : list Q) (J : list vec) : list vec :=
  if norm then normalise eps norms J else J.

(** * GradientArborescenceEmitter *)
Inductive gopt := GradAscent (lr : Q) | Opaque.

Record gae_cfg := mkGaeCfg {
  g_ctl : cfg;          (* selection rule, restart rule, batch size (Model/ESControl.v) *)
  g_n : nat;            (* solution_dim *)
  g_norm : bool;        (* normalize_grad *)
  g_eps : Q;            (* epsilon *)
  g_opt : gopt
}.

Record gae := mkGae {
  theta : vec;                   (* grad_opt.theta *)
  jac : option (list vec);       (* _jacobian_batch[0]: objective gradient, then measure gradients *)
  g_itrs : nat;
  g_restarts : nat
}.

Definition gae_init (x0 : vec) : gae := mkGae x0 None 0 0.

Inductive gaction :=
| GOptTell (idx : list nat) (np : nat)     (* opt.tell(indices, ranking_values, num_parents) *)
| GStep (g : vec)                          (* grad_opt.step(g) *)
| GSample (n : nat)                        (* archive.sample_elites(n) *)
| GGradReset (x : vec)                     (* grad_opt.reset(x) *)
| GOptReset0                               (* opt.reset(zeros) *)
| GRankerReset.

Definition gae_ask_dqd (s : gae) : vec := theta s.

Definition gae_tell_dqd (c : gae_cfg) (s : gae) (J : list vec) (norms : list Q) : gae :=
  mkGae (theta s) (Some (store_jac (g_norm c) (g_eps c) norms J)) (g_itrs s) (g_restarts s).

(** [theta + np.sum(jacobian * coeffs[:, :, None], axis=1)] *)
Definition branch (n : nat) (point : vec) (coeffs : list Q) (grads : list vec) : vec :=
  vadd point (lincomb n coeffs grads).

Definition gae_ask (c : gae_cfg) (s : gae) (coeffs : list (list Q)) : result (list vec) :=
  match jac s with
  | None => Err RuntimeError
  | Some g => Ok (map (fun cs => branch (g_n c) (theta s) cs g) coeffs)
  end.

(** what the collaborators answer during one tell *)
Record tell_in := mkTellIn {
  t_sols : list vec;            (* the solutions passed to tell *)
  t_status : list Z;            (* add_info["status"] *)
  t_idx : list nat;             (* ranker's index vector *)
  t_stop : bool;                (* opt.check_stop *)
  t_weights : nat -> list Q;    (* normalised recombination weights for a given number of parents *)
  t_elites : list vec;          (* archive.data("solution") *)
  t_pick : nat;                 (* which one sample_elites(1) draws *)
  t_theta_after : vec           (* Opaque optimiser: its theta after step() *)
}.

Definition apply_step (o : gopt) (th step after : vec) : vec :=
  match o with
  | GradAscent lr => vadd th (vscale lr step)     (* GradientAscentOpt.step: theta += lr * gradient *)
  | Opaque => after
  end.

Definition pick_elite (i : tell_in) : option vec :=
  match t_elites i with [] => None | _ => nth_error (t_elites i) (t_pick i) end.

(** [tell].  [skip_empty = true] is the behaviour C19 states (no parents selected: the solution point
    is left alone); [skip_empty = false] follows the unchanged code line by line, where the weighted
    mean of zero parents is the zero vector (defect F11). *)
Definition gae_tell_with (skip_empty : bool) (c : gae_cfg) (i : tell_in) (s : gae)
  : result (list gaction * gae) :=
  match jac s with
  | None => Err RuntimeError
  | Some _ =>
      let itrs1 := S (g_itrs s) in
      let new_sols := count_new (t_status i) in
      let np := num_parents (g_ctl c) new_sols in
      (* parents = data["solution"][indices][:num_parents] *)
      let parents := firstn np (take_rows (t_sols i) (t_idx i)) in
      let '(steplog, theta1) :=
        if skip_empty && (np =? 0) then ([], theta s)
        else
          let new_mean := lincomb (g_n c) (t_weights i np) parents in
          let gradient_step := vsub new_mean (theta s) in
          ([GStep gradient_step], apply_step (g_opt c) (theta s) gradient_step (t_theta_after i)) in
      let log := GOptTell (t_idx i) np :: steplog in
      if t_stop i || check_restart (c_rule (g_ctl c)) itrs1 new_sols then
        match pick_elite i with
        | None => Err IndexError
        | Some x =>
            Ok (log ++ [GSample 1; GGradReset x; GOptReset0; GRankerReset],
                mkGae x (jac s) itrs1 (S (g_restarts s)))
        end
      else Ok (log, mkGae theta1 (jac s) itrs1 (g_restarts s))
  end.

Definition gae_tell := gae_tell_with true.
Definition gae_tell_unpatched := gae_tell_with false.

(** histories *)
Inductive gop :=
| OAskDqd
| OTellDqd (J : list vec) (norms : list Q)
| OAsk (coeffs : list (list Q))
| OTell (i : tell_in).

Definition gstep (c : gae_cfg) (s : gae) (o : gop) : gae :=
  match o with
  | OAskDqd => s
  | OTellDqd J norms => gae_tell_dqd c s J norms
  | OAsk _ => s
  | OTell i => match gae_tell c i s with Ok (_, s') => s' | Err _ => s end
  end.

Definition grun (c : gae_cfg) (x0 : vec) (ops : list gop) : gae := fold_left (gstep c) ops (gae_init x0).

Definition is_tell_dqd (o : gop) : bool := match o with OTellDqd _ _ => true | _ => false end.

(** * GradientOperatorEmitter *)
Record goe_cfg := mkGoeCfg {
  o_n : nat;                        (* solution_dim *)
  o_mg : bool;                      (* measure_gradients *)
  o_sigma_g : Q;
  o_norm : bool;                    (* normalize_grad *)
  o_eps : Q;
  o_init : option (list vec)        (* initial_solutions *)
}.

Record goe := mkGoe {
  o_parents : list vec;                  (* what ask_dqd returned last (the sampled, perturbed parents) *)
  o_jac : option (list (list vec))       (* per parent: objective gradient, then measure gradients *)
}.

Definition goe_init : goe := mkGoe [] None.

(** [ask_dqd]: [sols] is what sampling + perturbation produced (not modelled here) *)
Definition goe_ask_dqd (c : goe_cfg) (s : goe) (archive_empty : bool) (sols : list vec) : goe * list vec :=
  match archive_empty, o_init c with
  | true, Some _ => (s, [])
  | _, _ => (mkGoe sols (o_jac s), sols)
  end.

Definition goe_tell_dqd (c : goe_cfg) (s : goe) (J : list (list vec)) (norms : list (list Q)) : goe :=
  mkGoe (o_parents s)
        (Some (if o_norm c then map2 (fun Ji ni => normalise (o_eps c) ni Ji) J norms else J)).

(** [noise[:, 0] = np.abs(noise[:, 0])] *)
Definition abs_head (cs : list Q) : list Q :=
  match cs with [] => [] | c0 :: t => Qabs c0 :: t end.

Definition goe_ask (c : goe_cfg) (s : goe) (archive_empty : bool) (coeffs : list (list Q))
  : result (list vec) :=
  match archive_empty, o_init c with
  | true, Some init => Ok init
  | _, _ =>
      match o_jac s with
      | None => Err RuntimeError
      | Some J =>
          if o_mg c then
            Ok (map2 (fun p cg => branch (o_n c) p (abs_head (fst cg)) (snd cg))
                     (o_parents s) (combine coeffs J))
          else
            (* parents + jacobian[:, 0, :] * sigma_g *)
            Ok (map2 (fun p g => vadd p (vscale (o_sigma_g c) (hd (vzero (o_n c)) g))) (o_parents s) J)
      end
  end.
