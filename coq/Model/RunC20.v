(** Executable runner for the visualisation model: decodes one plotting call, runs [plot], encodes the picture.
    input  = [kind; [dims; boundaries; lower; upper; centroids]; elites; frame?; opts]
             elite = [index; objective; measures];  opts = [df; transpose; vmin?; vmax?; sort; order?; lines; bounds?]
    output = [0; tag; fields...; world_unchanged]  or  [error code] *)
From Coq Require Import List ZArith QArith Bool.
From PV Require Import Base.ListUtil Model.Store Model.Sx Model.Viz.
Import ListNotations.
Open Scope Z_scope.

Definition err_code (e : err) : Z :=
  match e with ValueError => 1 | IndexError => 2 | RuntimeError => 3 | KeyError => 4
             | TypeError => 5 | StopIteration => 6 | OtherError => 7 end.

Definition dql := dlist dq.

Definition delite (s : sx) : option elite :=
  match s with
  | SL [i; ob; m] =>
      match dnat i, dq ob, dql m with
      | Some i', Some ob', Some m' => Some (mkElite i' ob' m')
      | _, _, _ => None
      end
  | _ => None
  end.

Definition dgeom (s : sx) : option geometry :=
  match s with
  | SL [d; b; lo; up; c] =>
      match dlist dnat d, dlist dql b, dql lo, dql up, dlist dql c with
      | Some d', Some b', Some lo', Some up', Some c' => Some (mkGeom d' b' lo' up' c')
      | _, _, _, _, _ => None
      end
  | _ => None
  end.

Definition dbounds (s : sx) : option (list Q * list Q) :=
  match s with
  | SL [lo; up] => match dql lo, dql up with Some a, Some b => Some (a, b) | _, _ => None end
  | _ => None
  end.

Definition dopts (s : sx) : option opts :=
  match s with
  | SL [df; tr; vmin; vmax; srt; ord; lines; bnds] =>
      match dbool df, dbool tr, dopt dq vmin, dopt dq vmax with
      | Some df', Some tr', Some vmin', Some vmax' =>
          match dbool srt, dopt (dlist dnat) ord, dbool lines, dopt dbounds bnds with
          | Some srt', Some ord', Some lines', Some bnds' =>
              Some (mkOpts df' tr' vmin' vmax' srt' ord' lines' bnds')
          | _, _, _, _ => None
          end
      | _, _, _, _ => None
      end
  | _ => None
  end.

Definition dkind (s : sx) : option kind :=
  match s with
  | SZ 0 => Some KGrid | SZ 1 => Some KCvt | SZ 2 => Some KSliding | SZ 3 => Some KProximity
  | SZ 4 => Some KParallel | _ => None
  end.

Definition eqq (p : Q * Q) : sx := SL [eq_ (fst p); eq_ (snd p)].
Definition eql (l : list Q) : sx := elist eq_ l.
Definition eoq := eopt eq_.
Definition eline (p : Q * (Q * Q)) : sx := SL [eq_ (fst p); eqq (snd p)].

Definition epicture (p : picture) : list sx :=
  match p with
  | PHeat h => [SZ 0; eql (hm_xb h); eql (hm_yb h); elist (elist eoq) (hm_colors h); eqq (hm_xlim h);
                eopt eqq (hm_ylim h); SL [eoq (fst (hm_clim h)); eoq (snd (hm_clim h))]; elist eqq (hm_markers h)]
  | PScatter s => [SZ 1; elist eqq (sc_offsets s); eql (sc_array s); elist eline (sc_vlines s);
                   elist eline (sc_hlines s); eqq (sc_xlim s); eqq (sc_ylim s); eqq (sc_clim s)]
  | PVor v => [SZ 2; elist eqq (vo_sites v); elist eoq (vo_obj v); elist eoq (vo_t v); eqq (vo_xlim v);
               eqq (vo_ylim v); eopt eqq (vo_clim v); elist eqq (vo_markers v)]
  | PPar p => [SZ 3; elist eql (pa_lines p); eql (pa_objs p); eql (pa_t p); elist eqq (pa_ylims p);
               SL [eoq (fst (pa_clim p)); eoq (snd (pa_clim p))]]
  end.

(** what the caller can observe of the world afterwards: index/objective/measures of archive and frame *)
Definition eelite (e : elite) : sx := SL [enat (e_index e); eq_ (e_obj e); eql (e_meas e)].
Definition eworld (w : world) : sx := SL [elist eelite (w_elites w); eopt (elist eelite) (w_frame w)].

Definition run_C20 (inp : sx) : sx :=
  match inp with
  | SL [k; g; es; fr; o] =>
      match dkind k, dgeom g, dlist delite es, dopt (dlist delite) fr, dopts o with
      | Some k', Some g', Some es', Some fr', Some o' =>
          let w := mkWorld g' es' fr' in
          let '(w', r) := plot w (k', o') in
          match r with
          | Ok p => SL (SZ 0 :: epicture p ++ [eworld w'])
          | Err e => SL [SZ (err_code e); eworld w']
          end
      | _, _, _, _, _ => sx_fail
      end
  | _ => sx_fail
  end.
