(** GridArchive.index_of in ROUNDED real arithmetic, generic in the roundings: one dimension of
        grid_indices = (dims * (measures - lower_bounds) + epsilon) / interval_size
        grid_indices = np.clip(grid_indices, 0, dims - 1).astype(np.int32)
    where every arithmetic operation rounds its exact result ([rs] the subtraction, [rm] the multiplication, [ra] the
    addition, [rq] the division: four possibly different roundings, because numpy mixes binary32 and binary64 in a float32
    archive -- see Model/GridFloat.v for the promotion rules).  The theorems (Proofs/GridRoundProofs.v) hold for ALL roundings
    that are monotone, so for every IEEE format, every rounding mode, and also for the saturating "overflow to infinity then
    clip" behaviour read as a monotone map into the extended reals' finite image; the instantiation with Flocq's generic
    [round] (any radix, any format, any valid rounding direction) is in the proofs file.

    NOT modelled here: NaN (index_of rejects non-finite measures), and the infinities themselves (an overflowing
    intermediate is +-inf, which np.clip sends to the edge cell: consistent with the monotone reading; the bit-exact model
    Model/GridFloat.v evaluated on generated cases covers those inputs concretely). *)
From Coq Require Import Reals ZArith.
From Flocq Require Import Raux.
Open Scope R_scope.

Section GridRound.
Variables rs rm ra rq : R -> R.

(** (dims * (m - lo) + eps) / w with one rounding per operation, in numpy's evaluation order *)
Definition raw_r (D lo eps w m : R) : R := rq (ra (rm (D * rs (m - lo)) + eps) / w).

(** np.clip(x, a, b) = minimum(maximum(x, a), b) *)
Definition clipR (a b x : R) : R := Rmin (Rmax x a) b.

(** clip to [0, d-1] in floating point (both bounds are integers, exactly representable), then truncate *)
Definition idx_r (d : Z) (lo eps w m : R) : Z := Ztrunc (clipR 0 (IZR (d - 1)) (raw_r (IZR d) lo eps w m)).
End GridRound.
