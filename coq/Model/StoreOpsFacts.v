(** What ArrayStore.clear / resize / the getters / the iterator do, statement by statement, as Model/Store.v renders it;
    harness/py2v_storeops.py records what the CURRENT source does (Generated/StoreOpsGen.v). *)
From Coq Require Import List.
Import ListNotations.

Inductive storeops_fact :=
  | ClearCountsResetsLenAndMaskOnly       (* clear: updates[CLEAR] += 1; n_occupied = 0; occupied.fill(False) -- rows stay    -> Store.clear *)
  | ResizeExtendsKeepsPrefixAndCounters   (* resize: capacity; mask zero-extended; occupied_list / fields keep their prefix;
                                             n_occupied and the update counters untouched                               -> Store.resize *)
  | GettersReadProps                      (* len = n_occupied; occupied_list = prefix of that length; capacity              -> Store.len / olist / cap *)
  | IteratorChecksCountersThenEnd.        (* snapshot of the counters at creation; __next__ compares FIRST, then end test   -> Store.iter_next *)

Definition model_storeops_facts : list storeops_fact :=
  [ClearCountsResetsLenAndMaskOnly; ResizeExtendsKeepsPrefixAndCounters; GettersReadProps; IteratorChecksCountersThenEnd].
