(** Executable runner for the ES control model (C10): rows are candidate ids ([P = Z]),
    ranking-value rows are lists of exact rationals ([V = list Q]). *)
From Coq Require Import List ZArith QArith Bool.
From PV Require Import Base.ListUtil Model.Store Model.Sx Model.ESControl.
Import ListNotations.
Open Scope Z_scope.

Definition c10_err_code (e : err) : Z :=
  match e with ValueError => 1 | IndexError => 2 | RuntimeError => 3 | KeyError => 4
             | TypeError => 5 | StopIteration => 6 | OtherError => 7 end.

Definition dcfg (s : sx) : option cfg :=
  match s with
  | SL [k; sel; rule; b] =>
      match dbool k, dbool sel, dnat b with
      | Some kk, Some ss, Some bb =>
          let kind := if kk then GAE else ESE in
          let sl := if ss then Filter else Mu in
          match rule with
          | SL [SZ 0] => Some (mkCfg kind sl Basic bb)
          | SL [SZ 1] => Some (mkCfg kind sl NoImprovement bb)
          | SL [SZ 2; SZ n] => Some (mkCfg kind sl (EveryN n) bb)
          | _ => None
          end
      | _, _, _ => None
      end
  | _ => None
  end.

Definition evals (v : list (list Q)) : sx := elist (elist eq_) v.

Definition eaction (a : action Z (list Q)) : sx :=
  match a with
  | ARank rows sts => SL [SZ 0; elist ez rows; elist ez sts]
  | AOptTell idx vals np => SL [SZ 1; elist enat idx; evals vals; enat np]
  | ACheckStop vals => SL [SZ 2; evals vals]
  | ASample n => SL [SZ 3; enat n]
  | AGradReset x => SL [SZ 4; ez x]
  | AOptReset o => SL [SZ 5; eopt ez o]
  | ARankerReset => SL [SZ 6]
  end.

Definition run_op10 (c : cfg) (s : state Z) (o : sx) : state Z * sx :=
  match o with
  | SL [SZ 0; x0] =>
      match dz x0 with
      | Some x =>
          (s, match construct (V := list Q) c x with
              | Ok log => SL [SZ 0; elist eaction log]
              | Err e => SL [SZ (c10_err_code e)]
              end)
      | None => (s, sx_fail)
      end
  | SL [SZ 1; rows] =>
      match dlist dz rows with
      | Some r => (s, elist ez (ask (mkEnv (V := list Q) r [] (fun _ _ => ([], [])) (fun _ => false) [] 0%nat)))
      | None => (s, sx_fail)
      end
  | SL [SZ 2; rows; sts; ridx; rvals; stop; arch; pick] =>
      match dlist dz rows, dlist dz sts, dlist dnat ridx, dlist (dlist dq) rvals,
            dbool stop, dlist dz arch, dnat pick with
      | Some r, Some st, Some ri, Some rv, Some sp, Some ar, Some pk =>
          let e := mkEnv r st (fun _ _ => (ri, rv)) (fun _ => sp) ar pk in
          let '(log, s', res) := tell c e s r st in
          (s', SL [elist eaction log; enat (itrs s'); enat (restarts s');
                   SZ (match res with Ok _ => 0 | Err er => c10_err_code er end)])
      | _, _, _, _, _, _, _ => (s, sx_fail)
      end
  | _ => (s, sx_fail)
  end.

Fixpoint run_ops10 (c : cfg) (s : state Z) (ops : list sx) : list sx :=
  match ops with
  | [] => []
  | o :: t => let '(s', out) := run_op10 c s o in out :: run_ops10 c s' t
  end.

Definition run_C10 (inp : sx) : sx :=
  match inp with
  | SL [c; SL ops] =>
      match dcfg c with
      | Some cc => SL (run_ops10 cc init_state ops)
      | None => sx_fail
      end
  | _ => sx_fail
  end.
