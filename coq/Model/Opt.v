(** Model of the discrete structure of the evolution-strategy optimizers
    (ribs/emitters/opt/_cma_es.py, _sep_cma_es.py, _lm_ma_es.py, _openai_es.py). Executable
    definitions only, no proofs.

    * [ask]: the resample-until-in-bounds loop shared by all native strategies, over an arbitrary
      stream of draws.  A draw [D] is one row of the array returned by the random generator
      (LM-MA-ES: a row of [z]; OpenAI-ES: a row of [noise]; CMA-ES / sep-CMA-ES: a row of
      [unscaled_params]); [f] is the transform of the current distribution (draw -> solution),
      [oob s] is [np.any(out_of_bounds, axis=1)] for that row.  Two arrays are kept, as in the code:
      the solutions ([self._solutions]) and what the optimizer records about the draw
      ([self._solution_z] / [self.noise]).
    * [ask_mirror]: OpenAI-ES with mirror sampling (one round, [noise = concat(half, -half)]).
    * [ask_openai_unpatched]: what the unchanged OpenAI-ES does without mirror sampling
      ([self.noise] is REPLACED by the array of the current round) -- kept only to state the
      refutation (finding F10).
    * [tell_mean]: parent selection, log-rank-weighted recombination over [Q] (the weights are an
      argument: they involve [ln] and are proved about over [R] in Model/OptReal.v), counters.
    * [openai_gradient]: centred ranks and the gradient estimate handed to Adam, over [Q]. *)
From Coq Require Import List Arith Bool ZArith QArith.
From PV Require Import Base.ListUtil.
Import ListNotations.
Set Implicit Arguments.
Local Open Scope nat_scope.

(** [arr[idxs] = vals] (numpy fancy-index assignment, left to right) *)
Fixpoint scatter X (arr : list (option X)) (idxs : list nat) (vals : list X) : list (option X) :=
  match idxs, vals with
  | i :: it, v :: vt => scatter (upd arr i (Some v)) it vt
  | _, _ => arr
  end.

(** [idxs[mask]] *)
Fixpoint select (idxs : list nat) (mask : list bool) : list nat :=
  match idxs, mask with
  | i :: it, b :: bt => if b then i :: select it bt else select it bt
  | _, _ => []
  end.

Section Ask.
Variables D Sol : Type.
Variable f : D -> Sol.
Variable oob : Sol -> bool.

Inductive ask_result :=
| Done (sols : list (option Sol)) (noise : list (option D)) (rounds consumed : nat)
| NeedMore (k : nat)      (* the finite stream prefix ran out; [k] more draws are requested *)
| OutOfFuel.

(** one iteration of [while len(remaining_indices) > 0:] per unit of fuel *)
Fixpoint ask_loop (fuel : nat) (remaining : list nat) (stream : list D)
         (sols : list (option Sol)) (noise : list (option D)) (rounds consumed : nat) : ask_result :=
  match remaining with
  | [] => Done sols noise rounds consumed
  | _ :: _ =>
    match fuel with
    | O => OutOfFuel
    | S fuel' =>
      let k := length remaining in
      if length stream <? k then NeedMore (k - length stream)
      else
        let z := firstn k stream in                      (* rng.standard_normal((len(remaining), n)) *)
        let noise' := scatter noise remaining z in       (* self._solution_z[remaining_indices] = z *)
        let new := map f z in                            (* _transform_and_check_sol *)
        let sols' := scatter sols remaining new in       (* self._solutions[remaining_indices] = new *)
        let remaining' := select remaining (map oob new) in
        ask_loop fuel' remaining' (skipn k stream) sols' noise' (S rounds) (consumed + k)
    end
  end.

(** every round consumes at least one draw, so [length stream + 1] rounds always suffice *)
Definition ask (batch : nat) (stream : list D) : ask_result :=
  ask_loop (S (length stream)) (seq 0 batch) stream (repeat None batch) (repeat None batch) 0 0.

(** mirror sampling: [noise_half = rng.standard_normal((batch // 2, n)); noise = concat(half, -half)];
    bounds are rejected by the constructor, so the loop body runs once *)
Variable neg : D -> D.
Definition ask_mirror (batch : nat) (stream : list D) : ask_result :=
  let h := Nat.div batch 2 in
  if length stream <? h then NeedMore (h - length stream)
  else let half := firstn h stream in
       let noise := half ++ map neg half in
       Done (map (fun d => Some (f d)) noise) (map (@Some D) noise) 1 h.

(** the unchanged OpenAI-ES without mirror sampling: [self.noise = rng.standard_normal((len(remaining), n))]
    replaces the whole array in every round *)
Fixpoint ask_openai_unpatched (fuel : nat) (remaining : list nat) (stream : list D)
         (sols : list (option Sol)) (noise : list D) : option (list (option Sol) * list D) :=
  match remaining with
  | [] => Some (sols, noise)
  | _ :: _ =>
    match fuel with
    | O => None
    | S fuel' =>
      let k := length remaining in
      if length stream <? k then None
      else
        let z := firstn k stream in
        let new := map f z in
        ask_openai_unpatched fuel' (select remaining (map oob new)) (skipn k stream)
                             (scatter sols remaining new) z
    end
  end.
End Ask.

(** * tell: parent selection, recombination, counters (vectors over Q) *)
Definition vadd (a b : list Q) : list Q := map (fun p => ((fst p) + (snd p))%Q) (combine a b).
Definition vscale (c : Q) (a : list Q) : list Q := map (Qmult c) a.

(** [arr[idxs]] *)
Definition gather X (d : X) (arr : list X) (idxs : list nat) : list X := map (fun i => nth i arr d) idxs.

(** [self._solutions[ranking_indices][:num_parents]] *)
Definition select_parents X (d : X) (sols : list X) (ranking : list nat) (num_parents : nat) : list X :=
  firstn num_parents (gather d sols ranking).

(** [np.sum(parents * np.expand_dims(weights, axis=1), axis=0)] *)
Definition wmean (dim : nat) (weights : list Q) (parents : list (list Q)) : list Q :=
  fold_left vadd (map (fun p => vscale (fst p) (snd p)) (combine weights parents)) (repeat 0%Q dim).

Inductive counter_kind := Evals (* CMA-ES, sep-CMA-ES: current_eval += len(ranking) *)
                        | Gens  (* LM-MA-ES: current_gens += 1 *).

Record dstate := { d_mean : list Q; d_count : nat }.

(** the part of [tell] that decides the new mean; note the absence of [ranking_values] *)
Definition tell_mean (kind : counter_kind) (weights : nat -> list Q) (s : dstate)
           (sols : list (list Q)) (ranking : list nat) (num_parents : nat) : dstate :=
  let count' := match kind with Evals => d_count s + length ranking | Gens => d_count s + 1 end in
  if Nat.eqb num_parents 0 then {| d_mean := d_mean s; d_count := count' |}
  else {| d_mean := wmean (length (d_mean s)) (weights num_parents)
                          (select_parents [] sols ranking num_parents);
          d_count := count' |}.

(** * OpenAI-ES tell: centred ranks and gradient estimate *)
(** [ranks[ranking_indices[::-1]] = np.arange(batch_size)] *)
Definition openai_ranks (batch : nat) (ranking : list nat) : list (option nat) :=
  scatter (repeat None batch) (rev ranking) (seq 0 batch).

Definition qnat (n : nat) : Q := inject_Z (Z.of_nat n).

(** [(ranks / (batch_size - 1)) - 0.5] *)
Definition centred (batch : nat) (r : option nat) : Q :=
  match r with Some k => (qnat k / qnat (batch - 1) - (1 # 2))%Q | None => 0%Q end.

Definition vsum (dim : nat) (rows : list (list Q)) : list Q := fold_left vadd rows (repeat 0%Q dim).

Definition openai_gradient (mirror : bool) (batch dim : nat) (sigma0 : Q) (noise : list (list Q))
           (ranking : list nat) : list Q :=
  let cr := map (centred batch) (openai_ranks batch ranking) in
  if mirror then
    let h := Nat.div batch 2 in
    let diff := map (fun p => Qminus (fst p) (snd p)) (combine (firstn h cr) (skipn h cr)) in
    vscale (/ (qnat h * sigma0))%Q
           (vsum dim (map (fun p => vscale (snd p) (fst p)) (combine (firstn h noise) diff)))
  else
    vscale (/ (qnat batch * sigma0))%Q
           (vsum dim (map (fun p => vscale (snd p) (fst p)) (combine noise cr))).
