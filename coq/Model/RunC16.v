(** Executable runner for the BanditScheduler model ([V = F = sx]; a feedback row is
    [status; ...] and counts as a success when its status is non-zero).
    input : [n_pool; num_active; reselect (0 terminated, 1 all); mode (0 batch, 1 single); with_result; ops]
      op = [0; rin; scores; chosen; resps]   ask: rin = emitter.restarts per pool member (-1: none),
                                              scores = [] | [(num den)] per pool member (UCB1 score of a
                                              previously selected emitter, [] = undefined/NaN),
                                              chosen = the implementation's active mask after the ask,
                                              resps = rows returned per pool member (inactive: [])
         | [2; data; fbs; fail]              tell   (as in RunC04)
         | [1] | [3]                         ask_dqd | tell_dqd
    output: [per-op outputs; final state].
      ask  -> [result; [reselect.any(); chosen satisfies valid_selection; kept; model's own select; active]]
      tell -> [result; [selection; success]]
    When the implementation's choice is not a valid selection the runner stops (the rest of the
    history would be compared against a different active set). *)
From Coq Require Import List ZArith QArith Bool.
From PV Require Import Base.ListUtil Base.SliceUtil Model.Store Model.Sx Model.RunC13 Model.Scheduler
     Model.RunC04 Model.Bandit.
Import ListNotations.
Open Scope Z_scope.

Definition status_nz_sx (f : sx) : bool :=
  match f with
  | SL (SZ st :: _) => negb (st =? 0)
  | _ => false
  end.

Definition bstate := bandit sx sx.

Definition dbop (s : sx) : option (bop sx sx) :=
  match s with
  | SL [SZ 0; rin; sc; ch; r] =>
      match dlist dz rin, dlist (dopt dq) sc, dlist dbool ch, dresp r with
      | Some ri, Some scs, Some chosen, Some resp =>
          Some (BAsk (fun i => nth i ri (-1)) (fun i => nth i scs None) chosen resp)
      | _, _, _, _ => None
      end
  | SL [SZ 2; d; f; fl] => option_map (@BTell sx sx) (dtell d (SL []) f fl)
  | SL [SZ 1] => Some BAskDqd
  | SL [SZ 3] => Some BTellDqd
  | _ => None
  end.

Definition ebstate (s : bstate) : sx :=
  SL [estate (core s); elist ebool (active s); elist enat (selection s); elist enat (success s);
      elist ez (restarts s)].

(** diagnostics of an ask, computed from the pre-state with the model's own definitions *)
Definition ask_diag (s : bstate) (o : bop sx sx) (s' : bstate) : sx * bool :=
  match o with
  | BAsk rin scores chosen _ =>
      if last_is (last_called (core s)) CAsk then (SL [], true)
      else
        let '(resel, kept, _) := ask_pre s rin in
        let any := existsb (fun b => b) resel in
        let keys := ucb_keys (selection s) scores in
        let ok := if any then valid_selection (num_active s) kept keys chosen
                  else forallb (fun p => Bool.eqb (fst p) (snd p)) (combine kept chosen)
                       && Nat.eqb (length kept) (length chosen) in
        (SL [ebool any; ebool ok; elist ebool kept; elist ebool (select (num_active s) kept keys);
             elist ebool (active s')], ok)
  | BTell _ => (SL [elist enat (selection s'); elist enat (success s')], true)
  | _ => (SL [], true)
  end.

Fixpoint run_bops (s : bstate) (ops : list sx) : list sx * sx :=
  match ops with
  | [] => ([], ebstate s)
  | o :: t =>
      match dbop o with
      | None => ([sx_fail], ebstate s)
      | Some op =>
          let '(s', r) := bandit_step status_nz_sx s op in
          let '(d, ok) := ask_diag s op s' in
          if ok then
            let '(outs, fin) := run_bops s' t in
            (SL [eout r; d; esizes (core s')] :: outs, fin)
          else ([SL [eout r; d; esizes (core s')]], ebstate s')
      end
  end.

Definition run_C16 (inp : sx) : sx :=
  match inp with
  | SL [n; k; rm; m; wr; SL ops] =>
      match dnat n, dnat k, dbool rm, dbool m, dbool wr with
      | Some nn, Some kk, Some rr, Some mm, Some ww =>
          let '(outs, fin) :=
            run_bops (bandit_init nn kk (if rr then AllActive else Terminated)
                                  (if mm then Single else Batch) ww) ops in
          SL [SL outs; fin]
      | _, _, _, _, _ => sx_fail
      end
  | _ => sx_fail
  end.
