(** Model of ribs/archives/_sliding_boundaries_archive.py : SolutionBuffer + SlidingBoundariesArchive
    (add_single / add / _remap / index_of / clear), over the ArchiveBase model of Model/Archive.v.
    Executable definitions only; exact rationals.

    An inserted solution is an [entry] (measures, objective, rest of the payload).  The elitist archive
    underneath stores payloads of type [list Q * P] (measures + rest) so that a remap can re-route every
    old elite by its own measures.

    [remap stale]: [stale = false] is the behaviour C15 states (and the code has after fix F8):
    the re-insertion uses the NEW boundaries AND the new lower/upper bounds.  [stale = true] describes
    the pre-fix code, which refreshed lower/upper bounds only after [_remap] returned, so that the
    re-insertion clipped with the previous bounds. *)
From Coq Require Import List Arith Bool ZArith QArith Qminmax.
From PV Require Import Base.ListUtil Base.QUtil Base.FirstArgmax Base.MixedRadix Model.Store Model.Archive.
Import ListNotations.
Set Implicit Arguments.
Open Scope Q_scope.

(** * geometry and index_of *)
Record geom := mkGeom { g_bnd : list (list Q); g_lo : list Q; g_hi : list Q }.

(** np.clip(x, lo, hi) = minimum(maximum(x, lo), hi) *)
Definition sclip (lo hi x : Q) : Q := Qmin (Qmax x lo) hi.

(** np.searchsorted(a, x, side="left") on a sorted array: number of leading elements < x *)
Fixpoint ssearch (a : list Q) (x : Q) : nat :=
  match a with
  | [] => O
  | y :: t => if Qle_bool x y then O else S (ssearch t x)
  end.

(** one dimension: max(0, searchsorted(boundary[:dim], clip(m + eps, lo, hi - eps)) - 1) *)
Definition sidx1 (eps : Q) (d : nat) (b : list Q) (lo hi m : Q) : nat :=
  Nat.max 0 (ssearch (firstn d b) (sclip lo (hi - eps) (m + eps)) - 1).

Fixpoint sgrid (eps : Q) (dims : list nat) (bnd : list (list Q)) (lo hi m : list Q) : list nat :=
  match dims, bnd, lo, hi, m with
  | d :: dt, b :: bt, l :: lt, h :: ht, x :: xt => sidx1 eps d b l h x :: sgrid eps dt bt lt ht xt
  | _, _, _, _, _ => []
  end.

Definition sindex (eps : Q) (dims : list nat) (g : geom) (m : list Q) : nat :=
  ravel dims (sgrid eps dims (g_bnd g) (g_lo g) (g_hi g) m).

(** * sorting measures (SortedList) *)
Fixpoint qinsert (x : Q) (l : list Q) : list Q :=
  match l with
  | [] => [x]
  | y :: t => if Qle_bool x y then x :: l else y :: qinsert x t
  end.

Definition qsort (l : list Q) : list Q := fold_right qinsert [] l.

Section Sliding.
Variable P : Type.

Record entry := mkEntry { e_mea : list Q; e_obj : Q; e_pay : P }.

Notation PP := (list Q * P)%type.

Record scfg := mkScfg {
  s_dims : list nat; s_eps : Q; s_freq : nat; s_cap : nat; s_offset : Q;
  s_lo0 : list Q; s_hi0 : list Q  (* the constructor's ranges *) }.

Definition acfg (c : scfg) : cfg := mkCfg (prod (s_dims c)) None 1 (s_offset c).

(** np.linspace(lo, hi, d + 1) -- used only for the initial boundaries *)
Definition linspace (lo hi : Q) (d : nat) : list Q :=
  map (fun j => lo + (hi - lo) * (inject_Z (Z.of_nat j) / inject_Z (Z.of_nat d))) (seq 0 (S d)).

Fixpoint init_bnd (dims : list nat) (lo hi : list Q) : list (list Q) :=
  match dims, lo, hi with
  | d :: dt, l :: lt, h :: ht => linspace l h d :: init_bnd dt lt ht
  | _, _, _ => []
  end.

Definition geom0 (c : scfg) : geom := mkGeom (init_bnd (s_dims c) (s_lo0 c) (s_hi0 c)) (s_lo0 c) (s_hi0 c).

(** the buffer: FIFO queue (oldest first).  The per-dimension SortedLists of the code (sortedcontainers,
    maintained by add/remove) are the sorted multisets of the buffered coordinates; the model computes them
    on demand ([sorted_measures]). *)
Record sstate := mkSS {
  ss_arch : archive PP;
  ss_buf : list entry;
  ss_total : nat;
  ss_geom : geom
}.

Definition sinit (c : scfg) : sstate :=
  mkSS (arch_init PP (acfg c)) [] 0 (geom0 c).

Definition coord (i : nat) (e : entry) : Q := nth i (e_mea e) 0.

(** SolutionBuffer.add *)
Definition buf_full (c : scfg) (buf : list entry) : bool := Nat.leb (s_cap c) (length buf).

Definition buf_add (c : scfg) (buf : list entry) (e : entry) : list entry :=
  (if buf_full c buf then tl buf else buf) ++ [e].

(** SolutionBuffer.sorted_measures: row i = sorted i-th coordinates of the buffered entries *)
Definition sorted_measures (c : scfg) (buf : list entry) : list (list Q) :=
  map (fun i => qsort (map (coord i) buf)) (seq 0 (length (s_dims c))).

(** candidates *)
Definition cand_of (c : scfg) (g : geom) (m : list Q) (o : Q) (p : P) : cand PP :=
  mkCand (sindex (s_eps c) (s_dims c) g m) o (m, p).

Definition cand_of_entry (c : scfg) (g : geom) (e : entry) : cand PP := cand_of c g (e_mea e) (e_obj e) (e_pay e).
Definition cand_of_row (c : scfg) (g : geom) (r : row PP) : cand PP := cand_of c g (fst (r_pay r)) (r_obj r) (snd (r_pay r)).

(** new boundaries from the sorted measures of one dimension:
    boundaries[i][j] = sorted[int(j * size / dims[i])] for j < dims[i]; boundaries[i][dims[i]] = sorted[-1] *)
Definition new_bnd1 (d : nat) (srt : list Q) : list Q :=
  map (fun j => nth (j * length srt / d) srt 0) (seq 0 d) ++ [last srt 0].

Fixpoint zip_with {A B C} (f : A -> B -> C) (l1 : list A) (l2 : list B) : list C :=
  match l1, l2 with
  | a :: t1, b :: t2 => f a b :: zip_with f t1 t2
  | _, _ => []
  end.

Definition new_geom (c : scfg) (srt : list (list Q)) : geom :=
  let b := zip_with new_bnd1 (s_dims c) srt in
  mkGeom b (map (fun l => hd 0 l) b) (map (fun l => last l 0) b).

(** the elites currently stored, in occupied-list order (store.data()) *)
Definition cur_rows (a : archive PP) : list (row PP) :=
  flat_map (fun ir : nat * option (row PP) => match snd ir with Some r => [r] | None => [] end) (elites a).

(** _remap (after the buffer already contains the newest entry) *)
Definition remap (stale : bool) (c : scfg) (st : sstate) : sstate * (Z * Q) :=
  let g' := new_geom c (sorted_measures c (ss_buf st)) in
  let gre := if stale then mkGeom (g_bnd g') (g_lo (ss_geom st)) (g_hi (ss_geom st)) else g' in
  let olds := map (cand_of_row c gre) (cur_rows (ss_arch st)) in
  let news := map (cand_of_entry c gre) (removelast (ss_buf st)) in
  let a1 := clear (acfg c) (ss_arch st) in
  let a2 := fst (add (acfg c) a1 (olds ++ news)) in
  match rev (ss_buf st) with
  | lst :: _ =>
      let '(a3, fb) := add_single (acfg c) a2 (cand_of_entry c gre lst) in
      (mkSS a3 (ss_buf st) (ss_total st) g', fb)
  | [] => (st, (0%Z, 0))   (* unreachable: the buffer holds at least the newest entry *)
  end.

(** SlidingBoundariesArchive.add_single on a validated entry *)
Definition sadd_single (stale : bool) (c : scfg) (st : sstate) (e : entry) : sstate * (Z * Q) :=
  let buf' := buf_add c (ss_buf st) e in
  let tot' := S (ss_total st) in
  let st1 := mkSS (ss_arch st) buf' tot' (ss_geom st) in
  if Nat.eqb (tot' mod s_freq c) 0 then remap stale c st1
  else
    let '(a', fb) := add_single (acfg c) (ss_arch st) (cand_of_entry c (ss_geom st) e) in
    (mkSS a' buf' tot' (ss_geom st), fb).

(** SlidingBoundariesArchive.add: a loop of add_single in batch order *)
Fixpoint sadd (stale : bool) (c : scfg) (st : sstate) (es : list entry) : sstate * list (Z * Q) :=
  match es with
  | [] => (st, [])
  | e :: t => let '(st1, fb) := sadd_single stale c st e in
              let '(st2, fbs) := sadd stale c st1 t in (st2, fb :: fbs)
  end.

(** ArchiveBase.clear: contents and statistics only; buffer, counter and boundaries persist *)
Definition sclear (c : scfg) (st : sstate) : sstate :=
  mkSS (clear (acfg c) (ss_arch st)) (ss_buf st) (ss_total st) (ss_geom st).

Inductive sop := SAdd (es : list entry) | SAddSingle (e : entry) | SClear.

Definition sstep (stale : bool) (c : scfg) (st : sstate) (o : sop) : sstate :=
  match o with
  | SAdd es => fst (sadd stale c st es)
  | SAddSingle e => fst (sadd_single stale c st e)
  | SClear => sclear c st
  end.

Definition srun (stale : bool) (c : scfg) (h : list sop) : sstate := fold_left (sstep stale c) h (sinit c).

End Sliding.

Arguments SClear {P}.
