(** Array-level facts about ProximityArchive.compute_novelty / add that Model/Proximity.v fixes by construction; harness/py2v_prox.py
    records which of them the CURRENT source exhibits (Generated/ProxGen.v: [gen_facts]), Refine/ProxRefine.v compares. *)
From Coq Require Import List.
Import ListNotations.

Inductive prox_fact :=
  | NoveltyIsMeanOfK               (* novelty = np.mean(dists, axis=1) over the k nearest stored measures   -> Proximity.novelty *)
  | EmptyNoveltyIsThreshold        (* empty archive: novelty := novelty_threshold (every candidate is novel) -> Proximity.novelty, n = 0 *)
  | EmptyLcIsZero                  (* empty archive: local competition scores are 0                          -> Proximity.lc_of *)
  | LcCountsOverKNeighbours        (* score = number of the k neighbours with a lower objective              -> Proximity.lc_range *)
  | GrowByPow2CeilLog2             (* capacity doubles until the new size fits                               -> Proximity.grow *)
  | NewRowsAppended                (* novel rows get indices len .. new_size-1 in batch order                -> Proximity.to_cands *)
  | NotNovelGoToNearest            (* with local competition, the others compete for their nearest neighbour -> Proximity.to_cands (pc_near) *)
  | WithoutLcOnlyNovelRows         (* without local competition only the novel rows reach the store          -> Proximity.novel_rows / spread *)
  | TreeRebuiltWhenAnyStatusNonzero. (* the tree (and the cached bounds) follow the store after every change  -> distances always to pmeasures *)

Definition model_facts : list prox_fact :=
  [NoveltyIsMeanOfK; EmptyNoveltyIsThreshold; EmptyLcIsZero; LcCountsOverKNeighbours; GrowByPow2CeilLog2; NewRowsAppended;
   NotNovelGoToNearest; WithoutLcOnlyNovelRows; TreeRebuiltWhenAnyStatusNonzero].
