(** Model of the control block shared by
      ribs/emitters/_evolution_strategy_emitter.py : EvolutionStrategyEmitter.{__init__, ask, _check_restart, tell}
      ribs/emitters/_gradient_arborescence_emitter.py : GradientArborescenceEmitter.{__init__, _check_restart, tell}
    (executable definitions only).

    The collaborators (evolution strategy, ranker, archive) are not modelled: what they answer is an
    input ([env], "oracle"), what they are *asked* is the output (the action log).  [P] is a solution
    row, [V] a row of ranking values; the model only moves them around. *)
From Coq Require Import List ZArith Bool Arith.
From PV Require Import Base.ListUtil Model.Store.
Import ListNotations.
Set Implicit Arguments.

Inductive selection := Mu | Filter.
Inductive restart_rule := Basic | NoImprovement | EveryN (n : Z).
Inductive emitter_kind := ESE | GAE.

Record cfg := mkCfg { c_kind : emitter_kind; c_sel : selection; c_rule : restart_rule; c_batch : nat }.

(** [new_sols = add_info["status"].astype(bool).sum()] *)
Definition count_new (statuses : list Z) : nat :=
  fold_left (fun acc z => if (z =? 0)%Z then acc else S acc) statuses 0.

(** [num_parents = new_sols if selection_rule == "filter" else batch_size // 2] *)
Definition num_parents (c : cfg) (new_sols : nat) : nat :=
  match c_sel c with Filter => new_sols | Mu => c_batch c / 2 end.

(** [_check_restart(num_parents)], evaluated after [self._itrs += 1] ([itrs] is the new value).
    Python's [%] on integers is floor-mod, as is [Z.modulo]. *)
Definition check_restart (r : restart_rule) (itrs : nat) (n_new : nat) : bool :=
  match r with
  | EveryN n => (Z.of_nat itrs mod n =? 0)%Z
  | NoImprovement => n_new =? 0
  | Basic => false
  end.

Section ES.
Variable P : Type.
Variable V : Type.

Inductive action :=
| ARank (rows : list P) (statuses : list Z)               (* ranker.rank(emitter, archive, data, add_info) *)
| AOptTell (idx : list nat) (vals : list V) (np : nat)     (* opt.tell(indices, ranking_values, num_parents) *)
| ACheckStop (sorted_vals : list V)                        (* opt.check_stop(ranking_values[indices]) *)
| ASample (n : nat)                                        (* archive.sample_elites(n) *)
| AGradReset (x : P)                                       (* grad_opt.reset(elite)           (GAE) *)
| AOptReset (x : option P)                                 (* opt.reset(elite) (ESE) / opt.reset(zeros) = None (GAE) *)
| ARankerReset.                                            (* ranker.reset(emitter, archive) *)

(** What the collaborators answer during one ask/tell round. *)
Record env := mkEnv {
  e_ask : list P;                                   (* opt.ask() *)
  e_status : list Z;                                (* add_info["status"] for those rows *)
  e_rank : list P -> list Z -> list nat * list V;   (* the ranker: (indices, ranking_values) *)
  e_stop : list V -> bool;                          (* opt.check_stop *)
  e_archive : list P;                               (* archive.data("solution") at tell time *)
  e_pick : nat                                      (* which of them sample_elites(1) draws *)
}.

Record state := mkState {
  itrs : nat;
  restarts : nat;
  center : option P;       (* point of the last restart ([None]: still the constructor's x0) *)
  ranker_epoch : nat       (* number of ranker resets by restarts *)
}.

Definition init_state : state := mkState 0 0 None 0.

(** constructor: [_check_restart(0)] is evaluated once to validate the rule (0 % 0 raises
    ZeroDivisionError), then the optimiser and the ranker are reset (order differs per class). *)
Definition construct (c : cfg) (x0 : P) : result (list action) :=
  match c_rule c with
  | EveryN Z0 => Err OtherError
  | _ => Ok (match c_kind c with
             | ESE => [AOptReset (Some x0); ARankerReset]
             | GAE => [ARankerReset; AOptReset None]
             end)
  end.

(** [ask]: the optimiser's rows, unchanged *)
Definition ask (e : env) : list P := e_ask e.

(** [ranking_values[indices]] *)
Definition take_rows (A : Type) (vals : list A) (idx : list nat) : list A :=
  flat_map (fun i => match nth_error vals i with Some v => [v] | None => [] end) idx.

(** [archive.sample_elites(1)["solution"][0]]; IndexError on an empty archive *)
Definition sample_elite (e : env) : option P :=
  match e_archive e with
  | [] => None
  | _ => nth_error (e_archive e) (e_pick e)
  end.

Definition restart_actions (c : cfg) (x : P) : list action :=
  match c_kind c with
  | ESE => [AOptReset (Some x); ARankerReset]
  | GAE => [AGradReset x; AOptReset None; ARankerReset]
  end.

(** [tell(solution=rows, add_info.status=statuses)]: the log of calls made to the collaborators,
    the new state and whether the call returned normally. *)
Definition tell (c : cfg) (e : env) (s : state) (rows : list P) (statuses : list Z)
  : list action * state * result unit :=
  (* self._itrs += 1 *)
  let itrs1 := S (itrs s) in
  let new_sols := count_new statuses in
  let '(indices, vals) := e_rank e rows statuses in
  let np := num_parents c new_sols in
  let sorted := take_rows vals indices in
  let log := [ARank rows statuses; AOptTell indices vals np; ACheckStop sorted] in
  if e_stop e sorted || check_restart (c_rule c) itrs1 new_sols then
    match sample_elite e with
    | None => (log ++ [ASample 1], mkState itrs1 (restarts s) (center s) (ranker_epoch s), Err IndexError)
    | Some x =>
        (log ++ ASample 1 :: restart_actions c x,
         mkState itrs1 (S (restarts s)) (Some x) (S (ranker_epoch s)), Ok tt)
    end
  else (log, mkState itrs1 (restarts s) (center s) (ranker_epoch s), Ok tt).

(** one scheduler round: ask, evaluate/add (the environment's [e_status]), tell the same rows *)
Definition round (c : cfg) (e : env) (s : state) : list action * state * result unit :=
  tell c e s (ask e) (e_status e).

Fixpoint run (c : cfg) (s : state) (h : list env) : list (list action) * state :=
  match h with
  | [] => ([], s)
  | e :: t =>
      let '(log, s1, _) := round c e s in
      let '(logs, s2) := run c s1 t in
      (log :: logs, s2)
  end.

Definition is_sample (a : action) : bool := match a with ASample _ => true | _ => false end.
Definition is_reset (a : action) : bool :=
  match a with ASample _ | AGradReset _ | AOptReset _ | ARankerReset => true | _ => false end.

(** observable "this tell restarted": the archive was asked for an elite *)
Definition restarted (log : list action) : bool := existsb is_sample log.

End ES.

Arguments ARankerReset {P V}.
Arguments ASample {P V} n.
Arguments AGradReset {P V} x.
Arguments AOptReset {P V} x.
Arguments ACheckStop {P V} sorted_vals.
Arguments ARank {P V} rows statuses.
Arguments AOptTell {P V} idx vals np.
Arguments init_state {P}.
Arguments restart_actions {P V} c x.
Arguments construct {P V} c x0.
