(** How GaussianOperator / IsoLineOperator draw their noise, as Model/Emit.v assumes it ([draw_matrix b d] for per-coordinate noise, a
    list of b values for the line noise); harness/py2v_op.py records what the CURRENT source does (Generated/OpGen.v). *)
From Coq Require Import List.
Import ListNotations.

Inductive op_fact :=
  | GaussNoisePerCoordinate    (* rng.normal(scale=sigma, size=(batch, dim)).astype(parents.dtype) *)
  | IsoNoisePerCoordinate      (* rng.normal(scale=iso_sigma, size=(batch, dim)) *)
  | LineNoisePerRow.           (* rng.normal(scale=line_sigma, size=(batch, 1)): ONE draw per row, broadcast over the coordinates *)

Definition model_op_facts : list op_fact := [GaussNoisePerCoordinate; IsoNoisePerCoordinate; LineNoisePerRow].
