(** Model of ribs/archives/_grid_archive.py : GridArchive.index_of / index_of_single /
    grid_to_int_index / int_to_grid_index, over exact rationals (every finite float is one).

    Python BEFORE fixes/F1.patch (per batch row, vectorised over dimensions):
        grid_indices = ((dims * (measures - lower_bounds) + epsilon) / interval_size).astype(int32)
        grid_indices = np.clip(grid_indices, 0, dims - 1)
        return np.ravel_multi_index(grid_indices.T, dims)

    Python after fixes/F1.patch (the code this development describes):
        grid_indices = (dims * (measures - lower_bounds) + epsilon) / interval_size
        grid_indices = np.clip(grid_indices, 0, dims - 1).astype(int32)

    [grid_idx1] is the behaviour the property requires: integer cast = truncation toward
    zero with no wrap-around, then clip.  [grid_idx1_clip_first] is the shape of the REPAIRED code
    (clip in floating point, then cast; fixes/F1.patch), proved equal to it in Proofs/GridProofs.v.
    [grid_idx1_int32_first] is the PRE-FIX code (shown above): the float -> int32 cast comes first and wraps every
    out-of-range value to -2^31 (observed x86-64/numpy semantics), so far-away coordinates fall into
    cell 0 instead of the nearest edge cell (finding F1; [grid_edge_high_refuted_for_int32_first]).

    Definitions only; proofs are in Proofs/GridProofs.v. *)
From Coq Require Import List ZArith QArith Qround Qminmax Bool.
From PV Require Import Base.MixedRadix.
Import ListNotations.
Open Scope Q_scope.

(** C / numpy float -> integer conversion: truncation toward zero *)
Definition Qtrunc (x : Q) : Z := if Qle_bool 0 x then Qfloor x else Qceiling x.

(** np.clip(x, lo, hi) = minimum(maximum(x, lo), hi) *)
Definition clipZ (lo hi x : Z) : Z := Z.min (Z.max x lo) hi.
Definition clipQ (lo hi x : Q) : Q := Qmin (Qmax x lo) hi.

(** (dims * (m - lower) + epsilon) / interval_size, one dimension *)
Definition grid_raw (d : Z) (lo hi eps m : Q) : Q :=
  (inject_Z d * (m - lo) + eps) / (hi - lo).

Definition grid_idx1 (d : Z) (lo hi eps m : Q) : Z :=
  clipZ 0%Z (d - 1)%Z (Qtrunc (grid_raw d lo hi eps m)).

Definition grid_idx1_clip_first (d : Z) (lo hi eps m : Q) : Z :=
  Qtrunc (clipQ 0 (inject_Z (d - 1)%Z) (grid_raw d lo hi eps m)).

(** float64 -> int32 as numpy does it on x86-64: values whose truncation does not fit give -2^31 *)
Definition int32_min : Z := (-2147483648)%Z.
Definition int32_max : Z := 2147483647%Z.
Definition cast_int32 (x : Q) : Z :=
  let t := Qtrunc x in
  if (int32_min <=? t)%Z && (t <=? int32_max)%Z then t else int32_min.

Definition grid_idx1_int32_first (d : Z) (lo hi eps m : Q) : Z :=
  clipZ 0%Z (d - 1)%Z (cast_int32 (grid_raw d lo hi eps m)).

(** cell boundaries as np.linspace(lower, upper, dims+1) means them: b_j = lo + j*(hi-lo)/d *)
Definition grid_boundary (d : Z) (lo hi : Q) (j : Z) : Q :=
  lo + inject_Z j * (hi - lo) / inject_Z d.

(** * all dimensions *)
Record gdim := mkGdim { gd : Z; glo : Q; ghi : Q }.

Fixpoint grid_cells (idx1 : Z -> Q -> Q -> Q -> Q -> Z) (eps : Q) (cfg : list gdim) (m : list Q) : list Z :=
  match cfg, m with
  | c :: ct, x :: mt => idx1 (gd c) (glo c) (ghi c) eps x :: grid_cells idx1 eps ct mt
  | _, _ => []
  end.

Definition grid_dims (cfg : list gdim) : list Z := map gd cfg.

Definition grid_to_int_index (cfg : list gdim) (g : list Z) : Z := ravelZ (grid_dims cfg) g.
Definition int_to_grid_index (cfg : list gdim) (i : Z) : list Z := unravelZ (grid_dims cfg) i.

Definition grid_index_of_one (eps : Q) (cfg : list gdim) (m : list Q) : Z :=
  grid_to_int_index cfg (grid_cells grid_idx1 eps cfg m).

(** index_of: a batch *)
Definition grid_index_of (eps : Q) (cfg : list gdim) (ms : list (list Q)) : list Z :=
  map (grid_index_of_one eps cfg) ms.

(** ArchiveBase.index_of_single:  return self.index_of(measures[None])[0] *)
Definition grid_index_of_single (eps : Q) (cfg : list gdim) (m : list Q) : Z :=
  nth 0 (grid_index_of eps cfg [m]) 0%Z.

(** the pre-fix code, all dimensions (for the refutation and for the harness to name what the
    implementation computed when it disagrees) *)
Definition grid_index_of_one_int32_first (eps : Q) (cfg : list gdim) (m : list Q) : Z :=
  grid_to_int_index cfg (grid_cells grid_idx1_int32_first eps cfg m).

Definition valid_gdim (c : gdim) : Prop := (1 <= gd c)%Z /\ glo c < ghi c.
Definition valid_cfg (cfg : list gdim) : Prop := Forall valid_gdim cfg.
