(** Model of ribs/archives/_transforms.py + ribs/archives/_archive_base.py (ArchiveBase) over the
    Store model. Executable definitions only.

    A candidate is (cell, objective, payload); the cell is what the archive's index_of returned for
    its measures (C03 is about index_of itself); the payload stands for solution, measures and all
    extra fields together (the model can only move it around). A stored row is
    (objective, threshold, payload). Numbers are exact rationals. *)
From Coq Require Import List Arith Bool ZArith QArith Qreduction.
From PV Require Import Base.ListUtil Base.QUtil Base.FirstArgmax Model.Store.
Import ListNotations.
Set Implicit Arguments.
Open Scope Q_scope.

Section Archive.
Variable P : Type.

Record cand := mkCand { c_cell : nat; c_obj : Q; c_pay : P }.
Record row := mkRow { r_obj : Q; r_thr : Q; r_pay : P }.

(** tmin = None is threshold_min = -inf (then the constructor forces learning_rate = 1) *)
Record cfg := mkCfg { cells : nat; tmin : option Q; lr : Q; offset : Q }.

Notation store := (Store.store row).

Definition look (s : store) (i : nat) : bool * option row := (get_occ s i, get_row s i).

(** cur_threshold with `cur_threshold[~occupied] = threshold_min` as an extended number *)
Definition thr_ext (c : cfg) (v : bool * option row) : option Q :=
  if fst v then match snd v with Some r => Some (r_thr r) | None => Some 0 end else tmin c.

(** cur_threshold after `cur_threshold[is_new] = 0 if threshold_min == -inf else threshold_min`
    (for a not-occupied, not-insertable entry it is threshold_min as well) *)
Definition thr_base (c : cfg) (v : bool * option row) : Q :=
  if fst v then match snd v with Some r => r_thr r | None => 0 end
  else match tmin c with None => 0 | Some t => t end.

(** ** batch_entries_with_threshold *)
Definition can_insert (c : cfg) (s : store) (x : cand) : bool :=
  gt_ext (c_obj x) (thr_ext c (look s (c_cell x))).

Definition status_of (c : cfg) (s : store) (x : cand) : Z :=
  if can_insert c s x then (if get_occ s (c_cell x) then 1%Z else 2%Z) else 0%Z.

Definition value_of (c : cfg) (s : store) (x : cand) : Q :=
  c_obj x - thr_base c (look s (c_cell x)).

Fixpoint qpow (q : Q) (n : nat) : Q := match n with O => 1 | S k => q * qpow q k end.

Definition qnat (n : nat) : Q := inject_Z (Z.of_nat n).

(** _compute_thresholds for one cell: ratio = (1-lr)^k, ratio*t + (sum/k)*(1-ratio) *)
Definition batch_thr (c : cfg) (t : Q) (grp : list cand) : Q :=
  let k := length grp in
  let ratio := qpow (1 - lr c) k in
  Qred (ratio * t + (Qsum (map c_obj grp) / qnat k) * (1 - ratio)).

Definition new_thr (c : cfg) (s : store) (w : cand) (grp : list cand) : Q :=
  match tmin c with
  | None => Qred (c_obj w)
  | Some _ => batch_thr c (thr_base c (look s (c_cell w))) grp
  end.

Definition group (i : nat) (l : list cand) : list cand := filter (fun x => Nat.eqb (c_cell x) i) l.

(** [collect f l]: the (index, row) pairs of the indices in [l] for which [f] yields a row *)
Definition collect (f : nat -> option row) (l : list nat) : list (nat * row) :=
  flat_map (fun i => match f i with Some r => [(i, r)] | None => [] end) l.

(** the row written to cell [i]: first arg-max of the insertable candidates aimed at [i]
    (aggregate(..., func="argmax") is first-wins), with the new threshold of that entry *)
Definition winner_row (c : cfg) (s : store) (filt : list cand) (i : nat) : option row :=
  let grp := group i filt in
  match first_argmax c_obj grp with
  | Some w => Some (mkRow (c_obj w) (new_thr c s w grp) (c_pay w))
  | None => None
  end.

(** the rows finally written: one per touched cell, in ascending cell order (aggregate's output order) *)
Definition batch_winners (c : cfg) (s : store) (cs : list cand) : list (nat * row) :=
  let filt := filter (can_insert c s) cs in
  collect (winner_row c s filt) (sort_uniq (map c_cell filt)).

(** ** single_entry_with_threshold *)
Definition single_ok (c : cfg) (s : store) (x : cand) : bool :=
  let v := look s (c_cell x) in
  if fst v then Qltb (thr_base c v) (c_obj x) else gt_ext (c_obj x) (tmin c).

Definition single_thr (c : cfg) (s : store) (x : cand) : Q :=
  Qred (thr_base c (look s (c_cell x)) * (1 - lr c) + c_obj x * lr c).

Definition single_winners (c : cfg) (s : store) (x : cand) : list (nat * row) :=
  if single_ok c s x then [(c_cell x, mkRow (c_obj x) (single_thr c s x) (c_pay x))] else [].

Definition single_status (c : cfg) (s : store) (x : cand) : Z :=
  if single_ok c s x then (if get_occ s (c_cell x) then 1%Z else 2%Z) else 0%Z.

(** ** compute_objective_sum / compute_best_index *)
Definition old_obj (s : store) (i : nat) : Q :=
  if get_occ s i then match get_row s i with Some r => r_obj r | None => 0 end else 0.

Definition sum_delta (s : store) (w : list (nat * row)) : Q :=
  Qsum (map (fun p => r_obj (snd p) - old_obj s (fst p)) w).

Definition best_index (w : list (nat * row)) : option nat :=
  option_map fst (first_argmax (fun p => r_obj (snd p)) w).

(** ** statistics *)
Record stats := mkStats {
  st_num : nat; st_cov : Q; st_qd : Q; st_norm : Q; st_max : option Q; st_mean : option Q }.

Record archive := mkArch {
  a_store : store; a_sum : Q; a_stats : stats; a_best : option (nat * row) }.

Definition stats0 : stats := mkStats 0 0 0 0 None None.

Definition arch_init (c : cfg) : archive := mkArch (init (cells c)) 0 stats0 None.

(** _stats_update(new_objective_sum, new_best_index), reading the store AFTER the write *)
Definition stats_update (c : cfg) (a : archive) (s' : store) (sum' : Q) (bi : nat) : archive :=
  let n := len s' in
  let qd := sum' - qnat n * offset c in
  let '(omax, best) :=
    match get_row s' bi with
    | Some r =>
        match st_max (a_stats a) with
        | None => (Some (r_obj r), Some (bi, r))
        | Some m => if Qltb m (r_obj r) then (Some (r_obj r), Some (bi, r)) else (Some m, a_best a)
        end
    | None => (st_max (a_stats a), a_best a)
    end in
  mkArch s' sum'
         (mkStats n (qnat n / qnat (cells c)) qd (qd / qnat (cells c)) omax (Some (sum' / qnat n)))
         best.

Definition commit (c : cfg) (a : archive) (s1 : store) (w : list (nat * row)) : archive :=
  let s' := fst (add_raw s1 (map fst w) (map snd w) true) in
  match best_index w with
  | Some bi => stats_update c a s' (a_sum a + sum_delta s1 w) bi
  | None => mkArch s' (a_sum a) (a_stats a) (a_best a)
  end.

(** ArchiveBase.add *)
Definition add (c : cfg) (a : archive) (cs : list cand) : archive * (list Z * list Q) :=
  let s1 := bump_add (a_store a) in
  (commit c a s1 (batch_winners c s1 cs), (map (status_of c s1) cs, map (value_of c s1) cs)).

(** ArchiveBase.add_single *)
Definition add_single (c : cfg) (a : archive) (x : cand) : archive * (Z * Q) :=
  let s1 := bump_add (a_store a) in
  (commit c a s1 (single_winners c s1 x), (single_status c s1 x, value_of c s1 x)).

Definition clear (c : cfg) (a : archive) : archive :=
  mkArch (Store.clear (a_store a)) 0 stats0 None.

(** ** reads *)
Definition content (a : archive) (i : nat) : option row :=
  if get_occ (a_store a) i then get_row (a_store a) i else None.

(** ArchiveBase.retrieve on the cells the queries map to: occupied flag + (index, row) or blank *)
Definition retrieve_cells (a : archive) (q : list nat) : list (bool * option (nat * row)) :=
  map (fun i => match content a i with Some r => (true, Some (i, r)) | None => (false, None) end) q.

(** sample_elites with the generator's integers as input; IndexError on an empty archive *)
Definition sample (a : archive) (ints : list nat) : result (list (nat * option row)) :=
  if Nat.eqb (len (a_store a)) 0%nat then Err IndexError
  else Ok (map (fun k => let i := nth k (olist (a_store a)) 0%nat in (i, get_row (a_store a) i)) ints).

Definition elites (a : archive) : list (nat * option row) := data (a_store a).

(** ** histories *)
Inductive aop := Add (cs : list cand) | AddSingle (x : cand) | Clear.

Definition astep (c : cfg) (a : archive) (o : aop) : archive :=
  match o with
  | Add cs => fst (add c a cs)
  | AddSingle x => fst (add_single c a x)
  | Clear => clear c a
  end.

Definition arun (c : cfg) (h : list aop) : archive := fold_left (astep c) h (arch_init c).

End Archive.

Arguments c_cell {P} c.
Arguments c_obj {P} c.
Arguments c_pay {P} c.
Arguments r_obj {P} r.
Arguments r_thr {P} r.
Arguments r_pay {P} r.
Arguments Clear {P}.
