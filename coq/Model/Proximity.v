(** Model of ribs/archives/_proximity_archive.py : ProximityArchive (executable definitions only).

    The archive is ArchiveBase (Model/Archive.v, default settings threshold_min = -inf,
    learning_rate = 1) over an ArrayStore (Model/Store.v) that grows by doubling, plus two derived
    caches (the cached_property lower_bounds / upper_bounds).  The k-D tree is NOT modelled: Euclidean
    distance needs a square root, so every candidate of a history carries
      - [pc_dists]: its distances to the stored entries 0..n-1 of the PRE-call archive (index aligned;
        exact rationals of the float64 distances, supplied by the harness; |x-y| exactly in 1-D),
      - [pc_near] : the index the archive's public index_of returns for it (the k-D tree's choice among
        equidistant nearest entries is unspecified, so it is an input that the model VALIDATES:
        it must be a stored index at minimum distance, else the call is answered [Err OtherError]).
    Novelty = mean of the min(k, n) smallest distances (a function of the multiset of distances, hence
    independent of how the tree breaks ties); the local-competition count depends on WHICH equidistant
    entries the tree returns at the k-th distance, so the model computes the interval of counts that
    valid neighbour selections can produce ([lc_range]; a single value when there is no tie at the
    boundary).  A payload [P] stands for solution + measures + extra fields; [meas] reads the measures
    (needed for the bounds only). *)
From Coq Require Import List Arith Bool ZArith QArith Qreduction.
From PV Require Import Base.ListUtil Base.QUtil Base.FirstArgmax Model.Store Model.Archive.
Import ListNotations.
Set Implicit Arguments.
Open Scope Q_scope.

(** ** distances: sorting, k smallest, mean *)
Fixpoint qinsert (x : Q) (l : list Q) : list Q :=
  match l with
  | [] => [x]
  | y :: t => if Qle_bool x y then x :: l else y :: qinsert x t
  end.

Definition qsort (l : list Q) : list Q := fold_right qinsert [] l.

Definition ksmallest (k : nat) (dists : list Q) : list Q := firstn k (qsort dists).

(** the k-th smallest distance (k >= 1) *)
Definition kth (k : nat) (dists : list Q) : Q := nth (k - 1) (qsort dists) 0.

Definition qmin (a b : Q) : Q := if Qle_bool a b then a else b.
Definition qmax (a b : Q) : Q := if Qle_bool a b then b else a.

Fixpoint map2 (f : Q -> Q -> Q) (u v : list Q) : list Q :=
  match u, v with
  | a :: u', b :: v' => f a b :: map2 f u' v'
  | _, _ => []
  end.

(** np.min / np.max (..., axis=0) over a non-empty list of equally long rows *)
Definition vfold (f : Q -> Q -> Q) (vs : list (list Q)) : list Q :=
  match vs with
  | [] => []
  | v :: t => fold_left (map2 f) t v
  end.

(** capacity growth: multiplier = 2 ** ceil(log2(new_size / capacity)), i.e. double until it fits *)
Fixpoint grow_fuel (fuel c n : nat) : nat :=
  if Nat.leb n c then c
  else match fuel with
       | O => c
       | S f => grow_fuel f (2 * c) n
       end.

Definition grow (c n : nat) : nat := grow_fuel n c n.

(** all_status[novel_enough] = add_info["status"] *)
Fixpoint spread (flags : list bool) (sts : list Z) : list Z :=
  match flags with
  | [] => []
  | true :: t => match sts with
                 | s :: st' => s :: spread t st'
                 | [] => 0%Z :: spread t []
                 end
  | false :: t => 0%Z :: spread t sts
  end.

Section Proximity.
Variable P : Type.
Variable meas : P -> list Q.

Notation cand := (Archive.cand P).
Notation row := (Archive.row P).
Notation archive := (Archive.archive P).
Notation store := (Store.store row).

Record pcfg := mkPcfg { pk : nat; pthr : Q; plc : bool; pcap0 : nat }.

Record pcand := mkPc { pc_obj : Q; pc_pay : P; pc_dists : list Q; pc_near : nat }.

(** ps_lo / ps_hi: the cached_property values in the instance __dict__ ([None] = not cached) *)
Record pstate := mkPs { ps_arch : archive; ps_lo : option (list Q); ps_hi : option (list Q) }.

(** ArchiveBase defaults: threshold_min = -inf, learning_rate = 1; qd_score_offset plays no role here *)
Definition acfg (c : nat) : cfg := mkCfg c None 1 0.

Definition pstore (st : pstate) : store := a_store (ps_arch st).
Definition psize (st : pstate) : nat := len (pstore st).
Definition pcap (st : pstate) : nat := cap (pstore st).

(** __init__: ValueError when initial_capacity < 1 *)
Definition pstart (c : pcfg) : pstate := mkPs (arch_init P (acfg (pcap0 c))) None None.
Definition pinit (c : pcfg) : result pstate :=
  if Nat.ltb (pcap0 c) 1 then Err ValueError else Ok (pstart c).

(** ** compute_novelty *)
Definition kk (c : pcfg) (n : nat) : nat := Nat.min (pk c) n.

(** n = len(archive); empty archive: novelty := novelty_threshold *)
Definition novelty (c : pcfg) (n : nat) (dists : list Q) : Q :=
  if Nat.eqb n 0 then pthr c
  else Qsum (ksmallest (kk c n) dists) / qnat (kk c n).

Definition is_novel (c : pcfg) (n : nat) (x : pcand) : bool :=
  Qle_bool (pthr c) (novelty c n (pc_dists x)).

Definition obj_at (st : pstate) (i : nat) : Q :=
  match get_row (pstore st) i with Some r => r_obj r | None => 0 end.

(** "neighbour i has a lower objective than o" *)
Definition lower (st : pstate) (o : Q) (i : nat) : bool := Qltb (obj_at st i) o.

Definition countb (f : nat -> bool) (l : list nat) : nat := length (filter f l).

(** stored indices strictly inside / exactly on the k-th distance [d] *)
Definition idx_below_at (d : Q) (dists : list Q) : list nat :=
  filter (fun i => Qltb (nth i dists 0) d) (seq 0 (length dists)).
Definition idx_tie_at (d : Q) (dists : list Q) : list nat :=
  filter (fun i => Qeq_bool (nth i dists 0) d) (seq 0 (length dists)).
Definition idx_below (k : nat) (dists : list Q) : list nat := idx_below_at (kth k dists) dists.
Definition idx_tie (k : nat) (dists : list Q) : list nat := idx_tie_at (kth k dists) dists.

(** interval of "number of the k nearest neighbours with a strictly lower objective" over all valid
    selections of k nearest neighbours: everything strictly below the k-th distance is selected,
    [need] of the entries AT the k-th distance are selected, in any way *)
Definition lc_range (st : pstate) (k : nat) (dists : list Q) (o : Q) : nat * nat :=
  let B := idx_below k dists in
  let T := idx_tie k dists in
  let need := (k - length B)%nat in
  let bl := countb (lower st o) B in
  let tl := countb (lower st o) T in
  let tn := (length T - tl)%nat in
  ((bl + (need - tn))%nat, (bl + Nat.min need tl)%nat).

Definition lc_of (c : pcfg) (st : pstate) (x : pcand) : nat * nat :=
  lc_range st (kk c (psize st)) (pc_dists x) (pc_obj x).

(** ** add *)
(** index_of's answer must be a stored index at minimum distance *)
Definition all_ge (d0 : Q) (dists : list Q) : bool := forallb (fun d => Qle_bool d0 d) dists.
Definition near_ok (n : nat) (x : pcand) : bool :=
  Nat.ltb (pc_near x) n && all_ge (nth (pc_near x) (pc_dists x) 0) (pc_dists x).

(** add_indices / add_data: novel rows get len, len+1, ... in batch order; with local competition the
    non-novel rows target their nearest entry, without it they are dropped *)
Fixpoint to_cands (c : pcfg) (n next : nat) (cs : list pcand) : list cand :=
  match cs with
  | [] => []
  | x :: t =>
      if is_novel c n x then mkCand next (pc_obj x) (pc_pay x) :: to_cands c n (S next) t
      else if plc c then mkCand (pc_near x) (pc_obj x) (pc_pay x) :: to_cands c n next t
      else to_cands c n next t
  end.

Record addout := mkOut {
  o_status : list Z; o_nov : list Q; o_lc : list (nat * nat); o_val : list Q }.

(** objective=None: zeros *)
Definition zero_obj (x : pcand) : pcand := mkPc 0 (pc_pay x) (pc_dists x) (pc_near x).

Definition with_store (a : archive) (s : store) : archive := mkArch s (a_sum a) (a_stats a) (a_best a).

Definition nonzero (z : Z) : bool := negb (Z.eqb z 0).

(** what the add call was given must be consistent with the pre-call archive: one distance per stored
    entry, and (with local competition) a valid index_of answer for every non-novel candidate *)
Definition valid_batch (c : pcfg) (st : pstate) (cs : list pcand) : bool :=
  forallb (fun x => Nat.eqb (length (pc_dists x)) (psize st)) cs &&
  (negb (plc c) || forallb (fun x => is_novel c (psize st) x || near_ok (psize st) x) cs).

Definition novel_rows (c : pcfg) (st : pstate) (cs : list pcand) : list pcand :=
  filter (is_novel c (psize st)) cs.

(** if new_size > capacity: resize(2 ** ceil(log2(new_size / capacity)) * capacity) *)
Definition grown_store (c : pcfg) (st : pstate) (cs : list pcand) : store :=
  let new_size := (psize st + length (novel_rows c st cs))%nat in
  let s0 := pstore st in
  if Nat.ltb (cap s0) new_size then fst (resize s0 (grow (cap s0) new_size)) else s0.

(** the part of add() after argument validation *)
Definition padd_ok (c : pcfg) (st : pstate) (cs : list pcand) : pstate * addout :=
  let n := psize st in
  let s1 := grown_store c st cs in
  let r := Archive.add (acfg (cap s1)) (with_store (ps_arch st) s1) (to_cands c n n cs) in
  let sts := fst (snd r) in
  let vals := snd (snd r) in
  let status := if plc c then sts else spread (map (is_novel c n) cs) sts in
  let changed := existsb nonzero status in
  (mkPs (fst r) (if changed then None else ps_lo st) (if changed then None else ps_hi st),
   mkOut status
         (map (fun x => novelty c n (pc_dists x)) cs)
         (if plc c then map (lc_of c st) cs else [])
         (if plc c then vals else [])).

Definition padd (c : pcfg) (st : pstate) (noobj : bool) (cs0 : list pcand) : pstate * result addout :=
  if noobj && plc c then (st, Err ValueError)
  else
    let cs := if noobj then map zero_obj cs0 else cs0 in
    if negb (valid_batch c st cs) then (st, Err OtherError)
    else let r := padd_ok c st cs in (fst r, Ok (snd r)).

(** add_single = validate_single, then add of a batch of one *)
Definition padd_single (c : pcfg) (st : pstate) (noobj : bool) (x : pcand) : pstate * result addout :=
  padd c st noobj [x].

(** clear(): store cleared, statistics reset, caches dropped (what the property demands; the unchanged
    code keeps the caches: [pclear_stale], finding F6) *)
Definition pclear (st : pstate) : pstate := mkPs (Archive.clear (acfg 0) (ps_arch st)) None None.
Definition pclear_stale (st : pstate) : pstate :=
  mkPs (Archive.clear (acfg 0) (ps_arch st)) (ps_lo st) (ps_hi st).

(** ** reads *)
Definition entries (st : pstate) : list (option row) := map (get_row (pstore st)) (olist (pstore st)).

Definition row_meas (o : option row) : list Q :=
  match o with Some r => meas (r_pay r) | None => [] end.

Definition pmeasures (st : pstate) : list (list Q) := map row_meas (entries st).

Definition read_lo (st : pstate) : pstate * result (list Q) :=
  match ps_lo st with
  | Some v => (st, Ok v)
  | None => if Nat.eqb (psize st) 0 then (st, Err RuntimeError)
            else let v := vfold qmin (pmeasures st) in (mkPs (ps_arch st) (Some v) (ps_hi st), Ok v)
  end.

Definition read_hi (st : pstate) : pstate * result (list Q) :=
  match ps_hi st with
  | Some v => (st, Ok v)
  | None => if Nat.eqb (psize st) 0 then (st, Err RuntimeError)
            else let v := vfold qmax (pmeasures st) in (mkPs (ps_arch st) (ps_lo st) (Some v), Ok v)
  end.

(** compute_novelty(measures[, local_competition=objectives]) on the current archive *)
Definition pnovelty (c : pcfg) (st : pstate) (cs : list pcand) : list Q * list (nat * nat) :=
  (map (fun x => novelty c (psize st) (pc_dists x)) cs, map (lc_of c st) cs).

(** ** histories *)
Inductive pop :=
| PAdd (noobj : bool) (cs : list pcand)
| PAddSingle (noobj : bool) (x : pcand)
| PClear
| PLower
| PUpper.

Definition pstep (c : pcfg) (st : pstate) (o : pop) : pstate :=
  match o with
  | PAdd b cs => fst (padd c st b cs)
  | PAddSingle b x => fst (padd_single c st b x)
  | PClear => pclear st
  | PLower => fst (read_lo st)
  | PUpper => fst (read_hi st)
  end.

Definition prun (c : pcfg) (h : list pop) : pstate := fold_left (pstep c) h (pstart c).

End Proximity.

Arguments PClear {P}.
Arguments PLower {P}.
Arguments PUpper {P}.
