(** Executable runner for the cqd_score model with dist_ord = 1 (L1 distance over exact rationals).
    input: [[omin; omax; dmax]; elites = [[obj; [m..]]..]; penalties = [q..]; iterations = [[[t..]..]..]]
    output: [mean (option); scores (option each)] *)
From Coq Require Import List ZArith QArith Qabs.
From PV Require Import Base.QUtil Model.Sx Model.Cqd.
Import ListNotations.
Open Scope Q_scope.

Fixpoint l1 (a b : list Q) : Q :=
  match a, b with
  | x :: ta, y :: tb => Qabs (x - y) + l1 ta tb
  | _, _ => 0
  end.

Definition delite (s : sx) : option (Q * list Q) :=
  match s with
  | SL [o; m] => match dq o, dlist dq m with Some oo, Some mm => Some (oo, mm) | _, _ => None end
  | _ => None
  end.

Definition run_CQD (inp : sx) : sx :=
  match inp with
  | SL [SL [a; b; d]; es; ps; its] =>
      match dq a, dq b, dq d, dlist delite es, dlist dq ps, dlist (dlist (dlist dq)) its with
      | Some omin, Some omax, Some dmax, Some elites, Some pens, Some iters =>
          let c := mkCqd omin omax dmax in
          SL [eopt eq_ (cqd_mean l1 c elites pens iters); elist (eopt eq_) (cqd_scores l1 c elites pens iters)]
      | _, _, _, _, _, _ => sx_fail
      end
  | _ => sx_fail
  end.
