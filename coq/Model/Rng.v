(** Model of random-number ownership in pyribs (executable definitions only, no proofs).

    What is modelled.  Every pyribs component that needs randomness builds a private
    [numpy.random.Generator] from its [seed] argument ([np.random.default_rng(seed)] in
    ArchiveBase.__init__, the operators, RankerBase.__init__, every optimizer in opt/), the two ES-driven
    emitters first split their seed with [SeedSequence.spawn(2)], and every later draw goes through
    that private generator.  The model keeps, for every generator, the identity of the stream it
    reads (the [(entropy, spawn_key)] of the SeedSequence that seeded its bit generator) and a
    cursor (how many variates were taken).  The value of the k-th variate of a stream is an
    abstract function [bits] (PCG64 + the ziggurat etc. are NOT modelled: that two different
    identities give different numbers is an observation about numpy, not a theorem).

    Layer 1 (generic): a world = owned generators + the three process-wide sources a careless
    implementation could use instead (NumPy's legacy global RandomState, Python's [random] module,
    fresh OS entropy as used by [default_rng(None)]); programs = lists of draws; histories = pyribs
    calls interleaved with foreign draws / reseeds of the globals by user code and with
    pickle round trips.
    Layer 2 (pyribs-shaped): constructors of every archive / emitter kind (which generators they
    create, from which seed, how far the constructor already advances them) and the footprint of
    every public operation (Scheduler.ask/ask_dqd/tell/tell_dqd, BanditScheduler.ask,
    ArchiveBase.sample_elites, ArchiveBase.cqd_score), compiled to layer-1 programs. *)
From Coq Require Import List ZArith Bool Arith.
From PV Require Import Base.ListUtil.
Import ListNotations.
Open Scope Z_scope.

(** * Seeds *)

(** identity of a stream: SeedSequence.entropy and SeedSequence.spawn_key *)
Definition seedid := (Z * list nat)%type.

(** a numpy SeedSequence object: spawning is stateful ([n_children_spawned]) *)
Record sseq := mkSS { ss_entropy : Z; ss_key : list nat; ss_spawned : nat }.

Definition sid_of (s : sseq) : seedid := (ss_entropy s, ss_key s).
Definition new_sseq (z : Z) : sseq := mkSS z [] 0.

(** SeedSequence.spawn(n): children get spawn_key = key ++ [n_children_spawned + i] *)
Definition spawn (s : sseq) (n : nat) : list sseq * sseq :=
  (map (fun i => mkSS (ss_entropy s) (ss_key s ++ [ss_spawned s + i]%nat) 0) (seq 0 n),
   mkSS (ss_entropy s) (ss_key s) (ss_spawned s + n)).

(** * Generators and the world *)

Record gen := mkGen { g_sid : seedid; g_pos : Z }.

(** process-wide sources that do not belong to any pyribs object *)
Record globals := mkGlobals {
  np_global : gen;      (* numpy.random.* legacy functions: the global RandomState *)
  py_global : gen;      (* Python's random.* module functions *)
  os_entropy : gen      (* what default_rng(None) / an unseeded third-party sampler consumes *)
}.

Record world := mkWorld { own : list gen; glob : globals }.

Inductive src := Own (i : nat) | NpGlobal | PyGlobal | OsEntropy.

Inductive gsel := GNp | GPy.

Section Semantics.
(** value of the k-th variate of the stream with a given identity *)
Variable bits : seedid -> Z -> Z.

Definition take (g : gen) (n : Z) : list Z * gen :=
  (map (fun k => bits (g_sid g) (g_pos g + Z.of_nat k)) (seq 0 (Z.to_nat n)),
   mkGen (g_sid g) (g_pos g + Z.max 0 n)).

Definition set_np (gl : globals) (g : gen) := mkGlobals g (py_global gl) (os_entropy gl).
Definition set_py (gl : globals) (g : gen) := mkGlobals (np_global gl) g (os_entropy gl).
Definition set_os (gl : globals) (g : gen) := mkGlobals (np_global gl) (py_global gl) g.

(** one RNG call: [n] variates from source [s].  A generator index that does not exist yields
    nothing (in Python: AttributeError before any draw). *)
Definition draw (w : world) (s : src) (n : Z) : list Z * world :=
  match s with
  | Own i =>
      match nth_error (own w) i with
      | Some g => let '(v, g') := take g n in (v, mkWorld (upd (own w) i g') (glob w))
      | None => ([], w)
      end
  | NpGlobal => let '(v, g') := take (np_global (glob w)) n in (v, mkWorld (own w) (set_np (glob w) g'))
  | PyGlobal => let '(v, g') := take (py_global (glob w)) n in (v, mkWorld (own w) (set_py (glob w) g'))
  | OsEntropy => let '(v, g') := take (os_entropy (glob w)) n in (v, mkWorld (own w) (set_os (glob w) g'))
  end.

(** * Layer 1: programs and histories *)

Inductive cmd := Draw (s : src) (n : Z).
Definition prog := list cmd.

Fixpoint exec (p : prog) (w : world) : list Z * world :=
  match p with
  | [] => ([], w)
  | Draw s n :: t =>
      let '(v, w1) := draw w s n in
      let '(vs, w2) := exec t w1 in (v ++ vs, w2)
  end.

Inductive op :=
  | Py (p : prog)                       (* one public pyribs call, resolved to the draws it performs *)
  | Foreign (g : gsel) (n : Z)          (* user code: np.random.normal(size=n) / n x random.random() *)
  | Reseed (g : gsel) (sid : seedid)    (* user code: np.random.seed(k) / random.seed(k) *)
  | Checkpoint (gl : globals).          (* x = pickle.loads(pickle.dumps(x)), resumed in a process whose
                                           global generators are [gl] (the same process: gl = glob w) *)

Inductive out := OPy (v : list Z) | OForeign (v : list Z) | OUnit.

(** pickle writes the state of every generator reachable from the pickled objects (the owned ones)
    and nothing else; loading rebuilds exactly those, whatever the loading process' globals are *)
Definition save (w : world) : list gen := own w.
Definition restore (blob : list gen) (gl : globals) : world := mkWorld blob gl.

Definition gsrc (g : gsel) : src := match g with GNp => NpGlobal | GPy => PyGlobal end.

Definition step (w : world) (o : op) : out * world :=
  match o with
  | Py p => let '(v, w') := exec p w in (OPy v, w')
  | Foreign g n => let '(v, w') := draw w (gsrc g) n in (OForeign v, w')
  | Reseed GNp sid => (OUnit, mkWorld (own w) (set_np (glob w) (mkGen sid 0)))
  | Reseed GPy sid => (OUnit, mkWorld (own w) (set_py (glob w) (mkGen sid 0)))
  | Checkpoint gl => (OUnit, restore (save w) gl)
  end.

Fixpoint run (h : list op) (w : world) : list out * world :=
  match h with
  | [] => ([], w)
  | o :: t => let '(x, w1) := step w o in let '(xs, w2) := run t w1 in (x :: xs, w2)
  end.

(** what pyribs returned, in order (foreign draws are the user's own business) *)
Fixpoint py_outs (l : list out) : list (list Z) :=
  match l with
  | [] => []
  | OPy v :: t => v :: py_outs t
  | _ :: t => py_outs t
  end.

End Semantics.

Definition is_py (o : op) : bool := match o with Py _ => true | _ => false end.
Definition drop_foreign (h : list op) : list op := filter is_py h.
Definition only_foreign (h : list op) : list op := filter (fun o => negb (is_py o)) h.

Definition cmd_owned (c : cmd) : bool := match c with Draw (Own _) _ => true | _ => false end.
Definition owned_only (p : prog) : bool := forallb cmd_owned p.
(** every pyribs call of the history draws from owned generators only *)
Definition py_ok (h : list op) : bool :=
  forallb (fun o => match o with Py p => owned_only p | _ => true end) h.

(** * Layer 2: pyribs components *)

(** a [seed=] argument: an int, or (a reference to) a SeedSequence object created by the user.
    ([None] is not in the language: the property is about seeded runs.) *)
Inductive seedv := SInt (z : Z) | SRef (k : nat).

Inductive role := RArchive | REmitter | ROperator | ROpt | RRanker | RThird.

Definition role_eqb (a b : role) : bool :=
  match a, b with
  | RArchive, RArchive | REmitter, REmitter | ROperator, ROperator
  | ROpt, ROpt | RRanker, RRanker | RThird, RThird => true
  | _, _ => false
  end.

(** CVTArchive(centroid_method=...) *)
Inductive centroid_method :=
  | CKmeans (samples : Z)   (* self._rng.uniform(size=(samples, m)); k_means(random_state=seed) *)
  | CKmeansCustom           (* samples given as an array: only k_means(random_state=seed) *)
  | CRandom                 (* self._rng.uniform(size=(cells, m)) *)
  | CSobol                  (* Sobol(scramble=False): deterministic *)
  | CScrambledSobol         (* Sobol(scramble=True, seed=seed) *)
  | CHalton                 (* Halton(seed=seed)  (scramble defaults to True) *)
  | CCustom.                (* custom_centroids given *)

Inductive archive_kind := AGrid | ACvt (c : centroid_method) | ASliding | AProximity.

Record archive_cfg := mkArchive { a_kind : archive_kind; a_seed : seedv; a_cells : Z; a_mdim : Z }.

Inductive es_kind := EsCma | EsSepCma | EsLmMa | EsOpenAi (mirror : bool) | EsPyCma.

Inductive ranker_kind := RkImp | Rk2Imp | RkObj | Rk2Obj | RkRd | Rk2Rd | RkNov | RkDensity.

(** only the two random-direction rankers draw (in reset()) *)
Definition ranker_random (rk : ranker_kind) : bool :=
  match rk with RkRd | Rk2Rd => true | _ => false end.

Inductive operator_kind := OpGaussian | OpIsoLine.

Inductive emitter_cfg :=
  | EGaussian (seed : seedv) (b d : Z) (init_sols : bool)
  | EIsoLine (seed : seedv) (b d : Z) (init_sols : bool)
  | EGenetic (o : operator_kind) (seed : seedv) (b d : Z) (init_sols : bool)
  | EGradOp (seed : seedv) (b d : Z) (init_sols isolinedd mgrad : bool)
  | EEvoStrat (seed : seedv) (es : es_kind) (rk : ranker_kind) (b d : Z)
  | EGradArbor (seed : seedv) (es : es_kind) (rk : ranker_kind) (b : Z).

Definition emitter_seed (e : emitter_cfg) : seedv :=
  match e with
  | EGaussian s _ _ _ | EIsoLine s _ _ _ | EGenetic _ s _ _ _ | EGradOp s _ _ _ _ _
  | EEvoStrat s _ _ _ _ | EGradArbor s _ _ _ => s
  end.

Record config := mkConfig {
  c_seqs : list seedid;              (* the user's SeedSequence objects: (entropy, spawn_key) *)
  c_archive : archive_cfg;
  c_emitters : list emitter_cfg
}.

(** ** Constructors.  State threaded through construction: the user's SeedSequence objects
    (spawn mutates them) ; result: generators in creation order, tagged (component, role). *)

Definition tagged := (nat * role * gen)%type.

(** np.random.default_rng(seed) *)
Definition default_rng (tbl : list sseq) (s : seedv) : option seedid :=
  match s with
  | SInt z => Some (z, [])
  | SRef k => option_map sid_of (nth_error tbl k)
  end.

(** seed_sequence = seed if isinstance(seed, SeedSequence) else SeedSequence(seed);
    opt_seed, ranker_seed = seed_sequence.spawn(2) *)
Definition spawn2 (tbl : list sseq) (s : seedv) : option (seedid * seedid * list sseq) :=
  match s with
  | SInt z =>
      match fst (spawn (new_sseq z) 2) with
      | [a; b] => Some (sid_of a, sid_of b, tbl)
      | _ => None
      end
  | SRef k =>
      match nth_error tbl k with
      | Some ss =>
          match spawn ss 2 with
          | ([a; b], ss') => Some (sid_of a, sid_of b, upd tbl k ss')
          | _ => None
          end
      | None => None
      end
  end.

(** ArchiveBase.__init__ + the subclass constructor.  [c] = component number of the archive. *)
Definition archive_init (tbl : list sseq) (c : nat) (a : archive_cfg) : option (list tagged) :=
  match default_rng tbl (a_seed a) with
  | None => None
  | Some sid =>
      let g0 := fun n => (c, RArchive, mkGen sid n) in
      let third := (c, RThird, mkGen sid 0) in
      Some match a_kind a with
           | ACvt (CKmeans samples) => [g0 (samples * a_mdim a); third]
           | ACvt CKmeansCustom => [g0 0; third]
           | ACvt CRandom => [g0 (a_cells a * a_mdim a)]
           | ACvt CScrambledSobol | ACvt CHalton => [g0 0; third]
           | _ => [g0 0]
           end
  end.

(** emitter constructors, creation order as in the Python code *)
Definition emitter_init (tbl : list sseq) (c : nat) (m : Z) (e : emitter_cfg)
  : option (list tagged * list sseq) :=
  match e with
  | EGaussian s _ _ _ | EGenetic _ s _ _ _ =>
      (* GaussianOperator(..., seed=seed) / _get_op(operator)(.., operator_kwargs) *)
      match default_rng tbl s with
      | Some sid => Some ([(c, ROperator, mkGen sid 0)], tbl)
      | None => None
      end
  | EIsoLine s _ _ _ =>
      (* self._rng = default_rng(seed) ... IsoLineOperator(..., seed=seed): two generators, same stream *)
      match default_rng tbl s with
      | Some sid => Some ([(c, REmitter, mkGen sid 0); (c, ROperator, mkGen sid 0)], tbl)
      | None => None
      end
  | EGradOp s _ _ _ _ _ =>
      match default_rng tbl s with
      | Some sid => Some ([(c, REmitter, mkGen sid 0)], tbl)
      | None => None
      end
  | EEvoStrat s _ rk _ _ =>
      (* opt = _get_es(es, seed=opt_seed, ...); ranker = _get_ranker(ranker, ranker_seed); ranker.reset(...) *)
      match spawn2 tbl s with
      | Some (o, r, tbl') =>
          Some ([(c, ROpt, mkGen o 0); (c, RRanker, mkGen r (if ranker_random rk then m else 0))], tbl')
      | None => None
      end
  | EGradArbor s _ rk _ =>
      (* ranker first, then the optimizer over the m+1 gradient coefficients *)
      match spawn2 tbl s with
      | Some (o, r, tbl') =>
          Some ([(c, RRanker, mkGen r (if ranker_random rk then m else 0)); (c, ROpt, mkGen o 0)], tbl')
      | None => None
      end
  end.

Fixpoint emitters_init (tbl : list sseq) (c : nat) (m : Z) (es : list emitter_cfg)
  : option (list tagged) :=
  match es with
  | [] => Some []
  | e :: t =>
      match emitter_init tbl c m e with
      | Some (gs, tbl') =>
          match emitters_init tbl' (S c) m t with
          | Some r => Some (gs ++ r)
          | None => None
          end
      | None => None
      end
  end.

(** the user builds the archive (component 0), then the emitters (components 1..) in order *)
Definition build (cfg : config) : option (list tagged) :=
  let tbl := map (fun s : seedid => mkSS (fst s) (snd s) 0) (c_seqs cfg) in
  match archive_init tbl 0 (c_archive cfg) with
  | Some ga =>
      match emitters_init tbl 1 (a_mdim (c_archive cfg)) (c_emitters cfg) with
      | Some ge => Some (ga ++ ge)
      | None => None
      end
  | None => None
  end.

Definition init (cfg : config) (gl : globals) : option world :=
  match build cfg with
  | Some t => Some (mkWorld (map snd t) gl)
  | None => None
  end.

Definition owners (t : list tagged) : list (nat * role) := map fst t.

(** ** Footprints of the public operations *)

Fixpoint idx_from (k : nat) (ow : list (nat * role)) (c : nat) (r : role) : nat :=
  match ow with
  | [] => k
  | (c', r') :: t => if (Nat.eqb c c' && role_eqb r r')%bool then k else idx_from (S k) t c r
  end.

(** position of generator (component, role) in [own]; out of range when there is none *)
Definition idx (ow : list (nat * role)) (c : nat) (r : role) : nat := idx_from 0 ow c r.

Section Footprints.
Variable ow : list (nat * role).
Variable m : Z.      (* measure_dim of the archive *)

Definition D (c : nat) (r : role) (n : Z) : cmd := Draw (Own (idx ow c r)) n.

(** ArchiveBase.sample_elites(n): one integers(len, size=n) call on the archive's generator *)
Definition sample_elites (n : Z) : prog := [D 0 RArchive n].

Definition operator_ask (c : nat) (o : operator_kind) (b d : Z) : prog :=
  match o with
  | OpGaussian => [D c ROperator (b * d)]
  | OpIsoLine => [D c ROperator (b * d); D c ROperator b]
  end.

(** variates the optimizer's ask() draws; [extra] = rows redrawn by the bound-handling resampling
    loop (data dependent) or, for the pycma wrapper, everything pycma asked its [randn] for *)
Definition es_ask_count (es : es_kind) (b d extra : Z) : Z :=
  match es with
  | EsPyCma => extra
  | EsOpenAi true => (b / 2) * d + extra
  | _ => b * d + extra
  end.

(** emitter.ask() of emitter number [c] (archive emptiness is read through archive.empty) *)
Definition ask_prog (c : nat) (e : emitter_cfg) (empty : bool) (extra : Z) : prog :=
  match e with
  | EGaussian _ b d init_sols =>
      if empty then (if init_sols then [] else operator_ask c OpGaussian b d)
      else sample_elites b ++ operator_ask c OpGaussian b d
  | EIsoLine _ b d init_sols =>
      if empty then (if init_sols then [] else operator_ask c OpIsoLine b d)
      else sample_elites (2 * b) ++ operator_ask c OpIsoLine b d
  | EGenetic o _ b d init_sols =>
      if empty then (if init_sols then [] else operator_ask c o b d)
      else sample_elites (match o with OpGaussian => b | OpIsoLine => 2 * b end) ++ operator_ask c o b d
  | EGradOp _ b _ init_sols _ mgrad =>
      if (empty && init_sols)%bool then []
      else if mgrad then [D c REmitter (b * (m + 1))] else []
  | EEvoStrat _ es _ b d => [D c ROpt (es_ask_count es b d extra)]
  | EGradArbor _ es _ b => [D c ROpt (es_ask_count es b (m + 1) extra)]
  end.

(** emitter.ask_dqd() *)
Definition ask_dqd_prog (c : nat) (e : emitter_cfg) (empty : bool) : prog :=
  match e with
  | EGradOp _ b d init_sols isolinedd _ =>
      if empty then
        (if init_sols then [] else [D c REmitter (b * d)])
      else if isolinedd then
        sample_elites b ++ [D c REmitter (b * d)] ++ sample_elites b ++ [D c REmitter b]
      else sample_elites b ++ [D c REmitter (b * d)]
  | _ => []
  end.

(** emitter.tell(): only a restart draws: new x0 from the archive, new direction in the ranker *)
Definition tell_prog (c : nat) (e : emitter_cfg) (restarted : bool) : prog :=
  match e with
  | EEvoStrat _ _ rk _ _ | EGradArbor _ _ rk _ =>
      if restarted then sample_elites 1 ++ (if ranker_random rk then [D c RRanker m] else [])
      else []
  | _ => []
  end.

Fixpoint sched_ask (c : nat) (es : list emitter_cfg) (empty : bool) (active : list bool) (extra : list Z) : prog :=
  match es with
  | [] => []
  | e :: t =>
      (if hd true active then ask_prog c e empty (hd 0 extra) else [])
      ++ sched_ask (S c) t empty (tl active) (tl extra)
  end.

Fixpoint sched_ask_dqd (c : nat) (es : list emitter_cfg) (empty : bool) : prog :=
  match es with
  | [] => []
  | e :: t => ask_dqd_prog c e empty ++ sched_ask_dqd (S c) t empty
  end.

Fixpoint sched_tell (c : nat) (es : list emitter_cfg) (restarted : list bool) : prog :=
  match es with
  | [] => []
  | e :: t => tell_prog c e (hd false restarted) ++ sched_tell (S c) t (tl restarted)
  end.

End Footprints.

(** one step of a pipeline as the user sees it; the flags are the evaluation-dependent facts the
    footprint depends on, all observable through public API (archive.empty, scheduler.active,
    emitter.restarts) *)
Inductive pop :=
  | PAsk (empty : bool) (active : list bool) (extra : list Z)  (* Scheduler.ask / BanditScheduler.ask *)
  | PAskDqd (empty : bool)                                    (* Scheduler.ask_dqd *)
  | PTell (restarted : list bool)                             (* tell: archive.add + emitter.tell *)
  | PTellDqd                                                  (* tell_dqd: no randomness *)
  | PSample (n : Z) (empty : bool)                            (* archive.sample_elites(n) *)
  | PCqd (iters pts : Z)                                      (* archive.cqd_score(iters, pts, ...) *)
  | PForeign (g : gsel) (n : Z)
  | PReseed (g : gsel) (sid : seedid)
  | PCheckpoint (gl : globals).

Definition compile (cfg : config) (ow : list (nat * role)) (o : pop) : op :=
  let m := a_mdim (c_archive cfg) in
  match o with
  | PAsk empty active extra => Py (sched_ask ow m 1 (c_emitters cfg) empty active extra)
  | PAskDqd empty => Py (sched_ask_dqd ow 1 (c_emitters cfg) empty)
  | PTell restarted => Py (sched_tell ow m 1 (c_emitters cfg) restarted)
  | PTellDqd => Py []
  | PSample n empty => Py (if empty then [] else sample_elites ow n)
  | PCqd iters pts => Py [D ow 0 RArchive (iters * pts * m)]
  | PForeign g n => Foreign g n
  | PReseed g sid => Reseed g sid
  | PCheckpoint gl => Checkpoint gl
  end.

Definition compile_all (cfg : config) (h : list pop) : list op :=
  match build cfg with
  | Some t => map (compile cfg (owners t)) h
  | None => []
  end.

(** a whole seeded run: build the components, then the history *)
Definition pipeline (bits : seedid -> Z -> Z) (cfg : config) (h : list pop) (gl : globals)
  : option (list out * world) :=
  match init cfg gl with
  | Some w => Some (run bits (compile_all cfg h) w)
  | None => None
  end.

(** * Seed hygiene facts the proofs talk about *)

Fixpoint prefix (a b : list nat) : bool :=
  match a, b with
  | [], _ => true
  | x :: a', y :: b' => (Nat.eqb x y && prefix a' b')%bool
  | _, [] => false
  end.

(** stream identity [sid] descends from seed [s] (same entropy; spawn key extends the seed's key) *)
Definition derives (seqs : list seedid) (s : seedv) (sid : seedid) : bool :=
  match s with
  | SInt z => (Z.eqb (fst sid) z)
  | SRef k => match nth_error seqs k with
              | Some (e, key) => (Z.eqb (fst sid) e && prefix key (snd sid))%bool
              | None => false
              end
  end.

Definition comp_seed (cfg : config) (c : nat) : option seedv :=
  match c with
  | O => Some (a_seed (c_archive cfg))
  | S j => option_map emitter_seed (nth_error (c_emitters cfg) j)
  end.

(** a concrete stand-in for the bit generator, used by the executable runner and the examples only
    (any function works: the theorems quantify over [bits]) *)
Definition toy_bits (sid : seedid) (k : Z) : Z :=
  (fst sid * 6364136223846793005 + Z.of_nat (fold_left (fun a x => (a * 31 + x + 1)%nat) (snd sid) 7%nat) * 1442695040888963407
   + k * 2862933555777941757 + 3037000493) mod 18446744073709551616.
