(** Boolean comparisons on Q and small lemmas. *)
From Coq Require Import QArith Qreduction Bool Lia Lqa.
Open Scope Q_scope.

Definition Qltb (x y : Q) : bool := negb (Qle_bool y x).
Definition Qleb (x y : Q) : bool := Qle_bool x y.

Lemma Qltb_lt x y : Qltb x y = true <-> x < y.
Proof.
  unfold Qltb. rewrite negb_true_iff. split.
  - intros H. apply Qnot_le_lt. intros Hle. apply Qle_bool_iff in Hle. congruence.
  - intros H. destruct (Qle_bool y x) eqn:E; auto. apply Qle_bool_iff in E. lra.
Qed.

Lemma Qltb_ge x y : Qltb x y = false <-> y <= x.
Proof.
  unfold Qltb. rewrite negb_false_iff. apply Qle_bool_iff.
Qed.

Lemma Qltb_compat x x' y y' : x == x' -> y == y' -> Qltb x y = Qltb x' y'.
Proof.
  intros Hx Hy. destruct (Qltb x y) eqn:E; symmetry.
  - apply Qltb_lt. apply Qltb_lt in E. lra.
  - apply Qltb_ge. apply Qltb_ge in E. lra.
Qed.

Lemma Qred_eq_of_Qeq x y : x == y -> Qred x = Qred y.
Proof. apply Qred_complete. Qed.

Fixpoint Qsum (l : list Q) : Q := match l with nil => 0 | cons x t => x + Qsum t end.

(** extended thresholds: None = -infinity *)
Definition gt_ext (o : Q) (t : option Q) : bool :=
  match t with None => true | Some t => Qltb t o end.
