(** Finite sums of real numbers: [rsum] over a list, [sumn] over the indices [0 .. n-1], and the few facts
    the optimizer proofs need (linearity, positivity, convex combinations, product of two sums). *)
From Coq Require Import Reals List Lra Lia.
Import ListNotations.
Open Scope R_scope.

Fixpoint rsum (l : list R) : R :=
  match l with [] => 0 | x :: t => x + rsum t end.

Fixpoint sumn (n : nat) (f : nat -> R) : R :=
  match n with O => 0 | S k => sumn k f + f k end.

(** * [rsum] *)
Lemma rsum_app l1 l2 : rsum (l1 ++ l2) = rsum l1 + rsum l2.
Proof. induction l1 as [|x t IH]; simpl; [lra | rewrite IH; lra]. Qed.

Lemma rsum_map_scale (c : R) l : rsum (map (fun x => c * x) l) = c * rsum l.
Proof. induction l as [|x t IH]; simpl; [lra | rewrite IH; lra]. Qed.

Lemma rsum_map_div (c : R) l : rsum (map (fun x => x / c) l) = rsum l / c.
Proof. induction l as [|x t IH]; simpl; [unfold Rdiv; lra | rewrite IH; unfold Rdiv; lra]. Qed.

Lemma rsum_nonneg l : Forall (fun x => 0 <= x) l -> 0 <= rsum l.
Proof. induction 1 as [|x t Hx _ IH]; simpl; lra. Qed.

Lemma rsum_pos l : l <> [] -> Forall (fun x => 0 < x) l -> 0 < rsum l.
Proof.
  intros Hne H. destruct H as [|x t Hx Ht]; [congruence|]. simpl.
  assert (0 <= rsum t); [|lra].
  apply rsum_nonneg. eapply Forall_impl; [|exact Ht]. simpl; intros; lra.
Qed.

Lemma rsum_In_le l x : Forall (fun y => 0 <= y) l -> In x l -> x <= rsum l.
Proof.
  induction 1 as [|y t Hy Ht IH]; simpl; [tauto|].
  intros [E|Hin]; [subst; pose proof (rsum_nonneg t Ht); lra | specialize (IH Hin); lra].
Qed.

Lemma rsum_map_ext A (f g : A -> R) l : (forall a, In a l -> f a = g a) -> rsum (map f l) = rsum (map g l).
Proof.
  induction l as [|a t IH]; simpl; intros H; [reflexivity|].
  rewrite (H a (or_introl eq_refl)), IH; [reflexivity|]. intros b Hb; apply H; right; exact Hb.
Qed.

Lemma rsum_map_le A (f g : A -> R) l : (forall a, In a l -> f a <= g a) -> rsum (map f l) <= rsum (map g l).
Proof.
  induction l as [|a t IH]; simpl; intros H; [lra|].
  pose proof (H a (or_introl eq_refl)). assert (rsum (map f t) <= rsum (map g t)); [|lra].
  apply IH. intros b Hb; apply H; right; exact Hb.
Qed.

Lemma rsum_map_nonneg A (f : A -> R) l : (forall a, In a l -> 0 <= f a) -> 0 <= rsum (map f l).
Proof.
  intros H. apply rsum_nonneg. apply Forall_forall. intros x Hx.
  apply in_map_iff in Hx. destruct Hx as [a [E Ha]]. subst. apply H; exact Ha.
Qed.

(** a weighted sum with non-negative weights lies between [lo * total weight] and [hi * total weight] *)
Lemma rsum_weighted_bounds (wv : list (R * R)) lo hi :
  (forall p, In p wv -> 0 <= fst p /\ lo <= snd p <= hi) ->
  lo * rsum (map fst wv) <= rsum (map (fun p => fst p * snd p) wv) <= hi * rsum (map fst wv).
Proof.
  induction wv as [|[w v] t IH]; simpl; intros H; [lra|].
  destruct (H (w, v) (or_introl eq_refl)) as [Hw [Hlo Hhi]]. simpl in *.
  destruct IH as [I1 I2]; [intros p Hp; apply H; right; exact Hp|].
  split; nra.
Qed.

(** * [sumn] *)
Lemma sumn_ext n f g : (forall i, (i < n)%nat -> f i = g i) -> sumn n f = sumn n g.
Proof.
  induction n as [|k IH]; simpl; intros H; [reflexivity|].
  rewrite IH, (H k); [reflexivity | lia | intros i Hi; apply H; lia].
Qed.

Lemma sumn_scale n c f : sumn n (fun i => c * f i) = c * sumn n f.
Proof. induction n as [|k IH]; simpl; [lra | rewrite IH; lra]. Qed.

Lemma sumn_plus n f g : sumn n (fun i => f i + g i) = sumn n f + sumn n g.
Proof. induction n as [|k IH]; simpl; [lra | rewrite IH; lra]. Qed.

Lemma sumn_zero n : sumn n (fun _ => 0) = 0.
Proof. induction n as [|k IH]; simpl; [reflexivity | rewrite IH; lra]. Qed.

Lemma sumn_nonneg n f : (forall i, (i < n)%nat -> 0 <= f i) -> 0 <= sumn n f.
Proof.
  induction n as [|k IH]; simpl; intros H; [lra|].
  assert (0 <= sumn k f) by (apply IH; intros i Hi; apply H; lia).
  pose proof (H k (Nat.lt_succ_diag_r k)). lra.
Qed.

(** product of two sums = double sum *)
Lemma sumn_mult n f g : sumn n f * sumn n g = sumn n (fun i => sumn n (fun j => f i * g j)).
Proof.
  transitivity (sumn n (fun i => f i * sumn n g)).
  - generalize (sumn n g). intros c. induction n as [|k IH]; simpl; [lra | rewrite <- IH; lra].
  - apply sumn_ext. intros i _. symmetry. apply sumn_scale.
Qed.
