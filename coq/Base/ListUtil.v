(** Generic list utilities shared by all models (executable) and their lemmas. *)
From Coq Require Import List Arith Bool Lia Sorted.
Import ListNotations.

Set Implicit Arguments.

(** [upd l i x]: functional array write (no-op when [i] is out of range). *)
Fixpoint upd {A} (l : list A) (i : nat) (x : A) : list A :=
  match l, i with
  | [], _ => []
  | _ :: t, O => x :: t
  | h :: t, S j => h :: upd t j x
  end.

Fixpoint memb (i : nat) (l : list nat) : bool :=
  match l with
  | [] => false
  | j :: t => if Nat.eqb i j then true else memb i t
  end.

(** ascending insertion without duplicates *)
Fixpoint insert_uniq (i : nat) (l : list nat) : list nat :=
  match l with
  | [] => [i]
  | j :: t => if Nat.ltb i j then i :: l
              else if Nat.eqb i j then l
              else j :: insert_uniq i t
  end.

Definition sort_uniq (l : list nat) : list nat := fold_right insert_uniq [] l.

(** last element of [combine idxs xs] whose key is [i] *)
Fixpoint last_write {A} (i : nat) (idxs : list nat) (xs : list A) : option A :=
  match idxs, xs with
  | j :: it, x :: xt =>
      match last_write i it xt with
      | Some y => Some y
      | None => if Nat.eqb i j then Some x else None
      end
  | _, _ => None
  end.

Fixpoint sum_nat (l : list nat) : nat :=
  match l with [] => 0 | x :: t => x + sum_nat t end.

(** * Lemmas *)

Lemma upd_length A (l : list A) i x : length (upd l i x) = length l.
Proof. revert i; induction l as [|h t IH]; intros [|j]; simpl; auto. Qed.

Lemma nth_upd_same A (l : list A) i x d : i < length l -> nth i (upd l i x) d = x.
Proof.
  revert i; induction l as [|h t IH]; intros [|j] H; simpl in *; try lia; auto.
  apply IH; lia.
Qed.

Lemma nth_upd_other A (l : list A) i j x d : i <> j -> nth j (upd l i x) d = nth j l d.
Proof.
  revert i j; induction l as [|h t IH]; intros [|i] [|j] H; simpl; auto; try lia.
Qed.

Lemma nth_upd A (l : list A) i j x d :
  nth j (upd l i x) d = if (Nat.eqb i j && Nat.ltb j (length l))%bool then x else nth j l d.
Proof.
  destruct (Nat.eqb_spec i j) as [->|Hne]; simpl.
  - destruct (Nat.ltb_spec j (length l)).
    + apply nth_upd_same; auto.
    + rewrite !nth_overflow; auto. rewrite upd_length; auto.
  - apply nth_upd_other; auto.
Qed.

Lemma memb_In i l : memb i l = true <-> In i l.
Proof.
  induction l as [|j t IH]; simpl; [intuition congruence|].
  destruct (Nat.eqb_spec i j); subst; intuition.
Qed.

Lemma memb_false i l : memb i l = false <-> ~ In i l.
Proof. rewrite <- memb_In. destruct (memb i l); intuition congruence. Qed.

Lemma insert_uniq_In i j l : In j (insert_uniq i l) <-> j = i \/ In j l.
Proof.
  induction l as [|k t IH]; simpl; [intuition|].
  destruct (Nat.ltb_spec i k); simpl; [intuition|].
  destruct (Nat.eqb_spec i k); subst; simpl; intuition.
Qed.

Lemma sort_uniq_In j l : In j (sort_uniq l) <-> In j l.
Proof.
  induction l as [|i t IH]; simpl; [intuition|].
  rewrite insert_uniq_In, IH; intuition.
Qed.

Definition strict_sorted (l : list nat) : Prop := Sorted.StronglySorted lt l.

Lemma strict_sorted_NoDup l : strict_sorted l -> NoDup l.
Proof.
  induction 1 as [|x l Hs IH Hf]; constructor; auto.
  intros Hin. rewrite Forall_forall in Hf. specialize (Hf x Hin). lia.
Qed.

Lemma insert_uniq_sorted i l : strict_sorted l -> strict_sorted (insert_uniq i l).
Proof.
  induction 1 as [|j t Hs IH Hf]; simpl.
  - constructor; constructor.
  - rewrite Forall_forall in Hf.
    destruct (Nat.ltb_spec i j).
    + constructor; [constructor; auto; apply Forall_forall; auto|].
      apply Forall_forall. intros y [->|Hy]; auto. specialize (Hf y Hy). lia.
    + destruct (Nat.eqb_spec i j).
      * constructor; auto. apply Forall_forall; auto.
      * constructor; auto. apply Forall_forall. intros y Hy.
        apply insert_uniq_In in Hy. destruct Hy as [->|Hy]; [lia|auto].
Qed.

Lemma sort_uniq_sorted l : strict_sorted (sort_uniq l).
Proof. induction l; simpl; [constructor | apply insert_uniq_sorted; auto]. Qed.

Lemma sort_uniq_NoDup l : NoDup (sort_uniq l).
Proof. apply strict_sorted_NoDup, sort_uniq_sorted. Qed.

Lemma last_write_None A i idxs (xs : list A) :
  length idxs = length xs -> (last_write i idxs xs = None <-> ~ In i idxs).
Proof.
  revert xs; induction idxs as [|j t IH]; intros [|x xt] Hl; simpl in *; try lia.
  - intuition.
  - specialize (IH xt ltac:(lia)).
    destruct (last_write i t xt) eqn:E.
    + split; [discriminate|]. intros Hn. exfalso. 
      assert (~ In i t) by intuition. apply IH in H. discriminate.
    + destruct (Nat.eqb_spec i j); subst; split; try discriminate; intuition.
Qed.

Lemma filter_length_le A (f : A -> bool) l : length (filter f l) <= length l.
Proof. induction l; simpl; auto. destruct (f a); simpl; lia. Qed.
