(** Mixed-radix (C order) ravel / unravel of grid indices, as numpy.ravel_multi_index / numpy.unravel_index
    compute them (the LAST dimension varies fastest), with the two inverse lemmas for every list of
    dimensions.  Written for C20 (GridArchive.int_to_grid_index is np.unravel_index(...).T). *)
From Coq Require Import List Arith Lia.
Import ListNotations.

Fixpoint prod (dims : list nat) : nat :=
  match dims with [] => 1 | d :: t => d * prod t end.

(** [ravel dims g] = sum_k g[k] * prod dims[k+1:] *)
Fixpoint ravel (dims g : list nat) : nat :=
  match dims, g with
  | _ :: dt, x :: gt => x * prod dt + ravel dt gt
  | _, _ => 0
  end.

(** [unravel dims i] for [i < prod dims] (numpy raises ValueError otherwise; callers check). *)
Fixpoint unravel (dims : list nat) (i : nat) : list nat :=
  match dims with
  | [] => []
  | _ :: dt => (i / prod dt) :: unravel dt (i mod prod dt)
  end.

(** a grid index is in range when it is component-wise below dims *)
Definition in_grid (dims g : list nat) : Prop := Forall2 lt g dims.

(** * Lemmas *)

Lemma in_grid_prod_pos dims g : in_grid dims g -> 0 < prod dims.
Proof.
  unfold in_grid. induction 1 as [|x d gt dt Hx Hf IH]; simpl; [lia|].
  apply Nat.mul_pos_pos; lia.
Qed.

Lemma ravel_lt dims g : in_grid dims g -> ravel dims g < prod dims.
Proof.
  unfold in_grid. induction 1 as [|x d gt dt Hx Hf IH]; simpl; [lia|].
  assert (x * prod dt + prod dt <= d * prod dt) by (replace (x * prod dt + prod dt) with (S x * prod dt) by lia;
    apply Nat.mul_le_mono_r; lia).
  lia.
Qed.

Lemma unravel_length dims i : length (unravel dims i) = length dims.
Proof. revert i; induction dims as [|d dt IH]; intros i; simpl; auto. Qed.

Lemma unravel_ravel dims g : in_grid dims g -> unravel dims (ravel dims g) = g.
Proof.
  unfold in_grid. induction 1 as [|x d gt dt Hx Hf IH]; simpl; [reflexivity|].
  pose proof (ravel_lt dt gt Hf) as Hlt.
  assert (Hp : prod dt <> 0) by lia.
  rewrite Nat.div_add_l by exact Hp.
  rewrite (Nat.div_small _ _ Hlt), Nat.add_0_r.
  rewrite Nat.add_comm, Nat.mod_add by exact Hp.
  rewrite (Nat.mod_small _ _ Hlt), IH. reflexivity.
Qed.

Lemma unravel_in_grid dims i : i < prod dims -> in_grid dims (unravel dims i).
Proof.
  unfold in_grid. revert i; induction dims as [|d dt IH]; intros i Hi; simpl in *; [constructor|].
  assert (Hp : prod dt <> 0) by (intros E; rewrite E in Hi; lia).
  constructor.
  - apply Nat.div_lt_upper_bound; [exact Hp|]. rewrite Nat.mul_comm. exact Hi.
  - apply IH. apply Nat.mod_upper_bound. exact Hp.
Qed.

Lemma ravel_unravel dims i : i < prod dims -> ravel dims (unravel dims i) = i.
Proof.
  revert i; induction dims as [|d dt IH]; intros i Hi; simpl in *; [lia|].
  assert (Hp : prod dt <> 0) by (intros E; rewrite E in Hi; lia).
  rewrite IH by (apply Nat.mod_upper_bound; exact Hp).
  pose proof (Nat.div_mod i (prod dt) Hp). lia.
Qed.

(** unravel is injective on the valid range, ravel on valid grid indices *)
Lemma unravel_inj dims i j : i < prod dims -> j < prod dims -> unravel dims i = unravel dims j -> i = j.
Proof.
  intros Hi Hj E. rewrite <- (ravel_unravel dims i Hi), <- (ravel_unravel dims j Hj), E. reflexivity.
Qed.

Lemma ravel_inj dims g h : in_grid dims g -> in_grid dims h -> ravel dims g = ravel dims h -> g = h.
Proof.
  intros Hg Hh E. rewrite <- (unravel_ravel dims g Hg), <- (unravel_ravel dims h Hh), E. reflexivity.
Qed.

(** the 2-D instance used by the heatmap: index = x * dy + y *)
Lemma ravel_2d dx dy x y : ravel [dx; dy] [x; y] = x * dy + y.
Proof. simpl. lia. Qed.

Lemma unravel_2d dx dy i : unravel [dx; dy] i = [i / dy; i mod dy].
Proof.
  unfold unravel, prod. rewrite !Nat.mul_1_r, Nat.div_1_r. reflexivity.
Qed.
