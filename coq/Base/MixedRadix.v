(** Mixed-radix (C order) ravel / unravel, as numpy.ravel_multi_index / numpy.unravel_index.

    [ravel [d0;d1;d2] [g0;g1;g2] = g0*d1*d2 + g1*d2 + g2]   (last index varies fastest).

    Two copies: over [nat] (the statement of the bijection, for EVERY dims list with positive
    entries, any number of dimensions) and over [Z] (what the executable models use, because
    extracted [nat] is unary).  [ravelZ_of_nat]/[unravelZ_of_nat] connect them. *)
From Coq Require Import List Arith ZArith Lia.
Import ListNotations.

(** * nat *)
Fixpoint prod (dims : list nat) : nat :=
  match dims with [] => 1 | d :: t => d * prod t end.

Fixpoint ravel (dims g : list nat) : nat :=
  match dims, g with
  | _ :: dt, x :: gt => x * prod dt + ravel dt gt
  | _, _ => 0
  end.

Fixpoint unravel (dims : list nat) (i : nat) : list nat :=
  match dims with
  | [] => []
  | _ :: dt => (i / prod dt) :: unravel dt (i mod prod dt)
  end.

(** [g] is a grid index of the grid [dims]: same length, every entry below its dimension *)
Definition in_grid (dims g : list nat) : Prop := Forall2 (fun d x => x < d) dims g.
Definition positive_dims (dims : list nat) : Prop := Forall (fun d => 0 < d) dims.

Lemma prod_pos dims : positive_dims dims -> 0 < prod dims.
Proof.
  induction 1 as [|d t Hd Ht IH]; simpl; [lia|]. apply Nat.mul_pos_pos; assumption.
Qed.

Lemma in_grid_positive dims g : in_grid dims g -> positive_dims dims.
Proof. induction 1 as [|d x dt gt Hx Ht IH]; constructor; [lia|exact IH]. Qed.

Lemma ravel_lt dims g : in_grid dims g -> ravel dims g < prod dims.
Proof.
  induction 1 as [|d x dt gt Hx Ht IH]; simpl; [lia|].
  assert (Hm : x * prod dt + prod dt <= d * prod dt).
  { replace (x * prod dt + prod dt) with ((x + 1) * prod dt) by lia.
    apply Nat.mul_le_mono_r. lia. }
  lia.
Qed.

Theorem unravel_ravel dims g : in_grid dims g -> unravel dims (ravel dims g) = g.
Proof.
  induction 1 as [|d x dt gt Hx Ht IH]; simpl; [reflexivity|].
  pose proof (ravel_lt _ _ Ht) as Hlt.
  assert (Hp : prod dt <> 0) by lia.
  rewrite Nat.add_comm.
  rewrite Nat.div_add by exact Hp. rewrite Nat.mod_add by exact Hp.
  rewrite Nat.div_small by exact Hlt. rewrite Nat.mod_small by exact Hlt.
  simpl. rewrite IH. reflexivity.
Qed.

Lemma unravel_in_grid dims : positive_dims dims -> forall i, i < prod dims -> in_grid dims (unravel dims i).
Proof.
  induction 1 as [|d t Hd Ht IH]; intros i Hi; simpl in *; [constructor|].
  pose proof (prod_pos _ Ht) as Hp.
  constructor.
  - apply Nat.div_lt_upper_bound; lia.
  - apply IH. apply Nat.mod_upper_bound. lia.
Qed.

Theorem ravel_unravel dims : positive_dims dims -> forall i, i < prod dims -> ravel dims (unravel dims i) = i.
Proof.
  induction 1 as [|d t Hd Ht IH]; intros i Hi; simpl in *; [lia|].
  pose proof (prod_pos _ Ht) as Hp.
  rewrite IH by (apply Nat.mod_upper_bound; lia).
  pose proof (Nat.div_mod i (prod t)) as E. lia.
Qed.

(** injectivity on the grid: two different grid indices never share an integer index *)
Corollary ravel_inj dims g1 g2 : in_grid dims g1 -> in_grid dims g2 -> ravel dims g1 = ravel dims g2 -> g1 = g2.
Proof.
  intros H1 H2 E. rewrite <- (unravel_ravel _ _ H1), <- (unravel_ravel _ _ H2), E. reflexivity.
Qed.

(** * Z (executable) *)
Open Scope Z_scope.

Fixpoint prodZ (dims : list Z) : Z :=
  match dims with [] => 1 | d :: t => d * prodZ t end.

Fixpoint ravelZ (dims g : list Z) : Z :=
  match dims, g with
  | _ :: dt, x :: gt => x * prodZ dt + ravelZ dt gt
  | _, _ => 0
  end.

Fixpoint unravelZ (dims : list Z) (i : Z) : list Z :=
  match dims with
  | [] => []
  | _ :: dt => (i / prodZ dt) :: unravelZ dt (i mod prodZ dt)
  end.

Definition in_gridZ (dims g : list Z) : Prop := Forall2 (fun d x => 0 <= x < d) dims g.
Definition positive_dimsZ (dims : list Z) : Prop := Forall (fun d => 0 < d) dims.

Lemma prodZ_pos dims : positive_dimsZ dims -> 0 < prodZ dims.
Proof. induction 1 as [|d t Hd Ht IH]; simpl; [lia|]. apply Z.mul_pos_pos; assumption. Qed.

Lemma in_gridZ_positive dims g : in_gridZ dims g -> positive_dimsZ dims.
Proof. induction 1 as [|d x dt gt Hx Ht IH]; constructor; [lia|exact IH]. Qed.

Lemma ravelZ_range dims g : in_gridZ dims g -> 0 <= ravelZ dims g < prodZ dims.
Proof.
  induction 1 as [|d x dt gt Hx Ht IH]; simpl; [lia|].
  pose proof (prodZ_pos _ (in_gridZ_positive _ _ Ht)) as Hp. nia.
Qed.

Theorem unravelZ_ravelZ dims g : in_gridZ dims g -> unravelZ dims (ravelZ dims g) = g.
Proof.
  induction 1 as [|d x dt gt Hx Ht IH]; simpl; [reflexivity|].
  pose proof (ravelZ_range _ _ Ht) as Hr.
  assert (Hp : prodZ dt <> 0) by lia.
  rewrite Z.add_comm.
  rewrite Z.div_add by exact Hp. rewrite Z.mod_add by exact Hp.
  rewrite Z.div_small by exact Hr. rewrite Z.mod_small by exact Hr.
  simpl. rewrite IH. reflexivity.
Qed.

Lemma unravelZ_in_grid dims : positive_dimsZ dims -> forall i, 0 <= i < prodZ dims -> in_gridZ dims (unravelZ dims i).
Proof.
  induction 1 as [|d t Hd Ht IH]; intros i Hi; simpl in *; [constructor|].
  pose proof (prodZ_pos _ Ht) as Hp.
  constructor.
  - split; [apply Z.div_pos; lia|]. apply Z.div_lt_upper_bound; lia.
  - apply IH. apply Z.mod_pos_bound. lia.
Qed.

Theorem ravelZ_unravelZ dims : positive_dimsZ dims -> forall i, 0 <= i < prodZ dims -> ravelZ dims (unravelZ dims i) = i.
Proof.
  induction 1 as [|d t Hd Ht IH]; intros i Hi; simpl in *; [lia|].
  pose proof (prodZ_pos _ Ht) as Hp.
  rewrite IH by (apply Z.mod_pos_bound; lia).
  pose proof (Z.div_mod i (prodZ t)) as E. lia.
Qed.

(** * the Z copy computes the nat one *)
Lemma prodZ_of_nat dims : prodZ (map Z.of_nat dims) = Z.of_nat (prod dims).
Proof. induction dims as [|d t IH]; simpl; [reflexivity|]. rewrite IH. lia. Qed.

Lemma ravelZ_of_nat dims : forall g, ravelZ (map Z.of_nat dims) (map Z.of_nat g) = Z.of_nat (ravel dims g).
Proof.
  induction dims as [|d t IH]; intros [|x gt]; simpl; try reflexivity.
  rewrite IH, prodZ_of_nat. lia.
Qed.

Lemma unravelZ_of_nat dims : forall i, unravelZ (map Z.of_nat dims) (Z.of_nat i) = map Z.of_nat (unravel dims i).
Proof.
  induction dims as [|d t IH]; intros i; simpl; [reflexivity|].
  rewrite prodZ_of_nat, <- Nat2Z.inj_div, <- Nat2Z.inj_mod, IH. reflexivity.
Qed.
