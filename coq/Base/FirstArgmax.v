(** First arg-max of a list under a Q-valued key: strict [<] keeps the earlier element.
    This is numpy's argmax / numpy_groupies' aggregate(func="argmax") tie rule. *)
From Coq Require Import List QArith Bool Lia Lqa.
From PV Require Import Base.QUtil.
Import ListNotations.
Open Scope Q_scope.
Set Implicit Arguments.

Section FAM.
Variable A : Type.
Variable key : A -> Q.

Definition better (i x : A) : A := if Qltb (key i) (key x) then x else i.

Fixpoint fam (inc : option A) (l : list A) : option A :=
  match l with
  | [] => inc
  | x :: t => fam (Some (match inc with None => x | Some i => better i x end)) t
  end.

Definition first_argmax (l : list A) : option A := fam None l.

Lemma fam_app inc l1 l2 : fam inc (l1 ++ l2) = fam (fam inc l1) l2.
Proof. revert inc; induction l1 as [|x t IH]; intros inc; simpl; auto. Qed.

Lemma first_argmax_app l1 l2 : first_argmax (l1 ++ l2) = fam (first_argmax l1) l2.
Proof. apply fam_app. Qed.

Lemma fam_some i l : exists w, fam (Some i) l = Some w.
Proof. revert i; induction l as [|x t IH]; intros i; simpl; eauto. Qed.

Lemma fam_none_iff l : first_argmax l = None <-> l = [].
Proof.
  unfold first_argmax. destruct l as [|x t]; simpl; [intuition|].
  destruct (fam_some x t) as [w Hw]. rewrite Hw. split; discriminate.
Qed.

(** the winner is the incumbent or a member *)
Lemma fam_in i l w : fam (Some i) l = Some w -> w = i \/ In w l.
Proof.
  revert i; induction l as [|x t IH]; intros i H; simpl in *.
  - left; congruence.
  - apply IH in H. unfold better in H. destruct (Qltb (key i) (key x)); intuition (subst; auto).
Qed.

Lemma first_argmax_in l w : first_argmax l = Some w -> In w l.
Proof.
  unfold first_argmax. destruct l as [|x t]; simpl; [discriminate|].
  intros H. apply fam_in in H. intuition.
Qed.

(** the winner's key dominates *)
Lemma fam_ge i l w : fam (Some i) l = Some w -> key i <= key w /\ forall x, In x l -> key x <= key w.
Proof.
  revert i; induction l as [|x t IH]; intros i H; simpl in *.
  - inversion H; subst. split; [lra|intros ? []].
  - apply IH in H. destruct H as [H1 H2]. unfold better in H1.
    destruct (Qltb (key i) (key x)) eqn:E.
    + apply Qltb_lt in E. split; [lra|]. intros y [->|Hy]; auto.
    + apply Qltb_ge in E. split; auto. intros y [->|Hy]; [lra|auto].
Qed.

Lemma first_argmax_ge l w : first_argmax l = Some w -> forall x, In x l -> key x <= key w.
Proof.
  unfold first_argmax. destruct l as [|y t]; simpl; [discriminate|].
  intros H x Hx. apply fam_ge in H. destruct H as [H1 H2]. destruct Hx as [->|Hx]; auto.
Qed.

(** an incumbent survives exactly when nothing later is strictly better *)
Lemma fam_keeps i l : (forall x, In x l -> key x <= key i) -> fam (Some i) l = Some i.
Proof.
  revert i; induction l as [|x t IH]; intros i H; simpl; auto.
  unfold better. assert (Hx : key x <= key i) by (apply H; simpl; auto).
  apply Qltb_ge in Hx. rewrite Hx. apply IH. intros y Hy. apply H; simpl; auto.
Qed.

(** earliest-among-maxima: everything strictly before the winner has a strictly smaller key *)
Lemma fam_first i l w :
  fam (Some i) l = Some w ->
  (w = i /\ forall x, In x l -> key x <= key i) \/
  (exists l1 l2, l = l1 ++ w :: l2 /\ key i < key w /\ (forall x, In x l1 -> key x < key w) /\
                 (forall x, In x l2 -> key x <= key w)).
Proof.
  revert i; induction l as [|x t IH]; intros i H; simpl in *.
  - left. inversion H; subst. split; auto. intros ? [].
  - unfold better in H. destruct (Qltb (key i) (key x)) eqn:E.
    + apply Qltb_lt in E. right. destruct (IH _ H) as [[-> Hle]|(l1 & l2 & -> & Hlt & Hb & Ha)].
      * exists [], t. simpl. repeat split; auto. intros ? [].
      * exists (x :: l1), l2. simpl. repeat split; auto; try lra.
        intros y [->|Hy]; auto.
    + apply Qltb_ge in E. destruct (IH _ H) as [[-> Hle]|(l1 & l2 & -> & Hlt & Hb & Ha)].
      * left. split; auto. intros y [->|Hy]; auto.
      * right. exists (x :: l1), l2. simpl. repeat split; auto.
        intros y [->|Hy]; auto. lra.
Qed.

Lemma first_argmax_first l w :
  first_argmax l = Some w ->
  exists l1 l2, l = l1 ++ w :: l2 /\ (forall x, In x l1 -> key x < key w) /\ (forall x, In x l2 -> key x <= key w).
Proof.
  unfold first_argmax. destruct l as [|y t]; simpl; [discriminate|].
  intros H. destruct (fam_first _ _ H) as [[-> Hle]|(l1 & l2 & -> & Hlt & Hb & Ha)].
  - exists [], t. simpl. repeat split; auto. intros ? [].
  - exists (y :: l1), l2. simpl. repeat split; auto. intros x [->|Hx]; auto.
Qed.

(** implementation shape: filter by "strictly better than the incumbent", then first arg-max *)
Lemma fam_filter i l :
  fam (Some i) l =
  match first_argmax (filter (fun x => Qltb (key i) (key x)) l) with
  | None => Some i
  | Some w => Some w
  end.
Proof.
  revert i. induction l as [|x t IH]; intros i; simpl; auto.
  unfold better. destruct (Qltb (key i) (key x)) eqn:E.
  - unfold first_argmax. simpl. rewrite !IH.
    apply Qltb_lt in E.
    rewrite <- (IH x). 
    (* fam (Some x) t = fam (Some x) (filter (> key i) t) *)
    clear IH. revert x E. induction t as [|y t' IHt]; intros x E; simpl; auto.
    destruct (Qltb (key i) (key y)) eqn:Ey; simpl.
    + unfold better. destruct (Qltb (key x) (key y)) eqn:Exy.
      * apply IHt. apply Qltb_lt in Ey; auto.
      * apply IHt; auto.
    + unfold better. apply Qltb_ge in Ey.
      assert (Exy : Qltb (key x) (key y) = false) by (apply Qltb_ge; lra).
      rewrite Exy. apply IHt; auto.
  - apply IH.
Qed.

End FAM.
