(** Vectors of exact rationals (lists of Q): the arithmetic numpy does on 1-D / 2-D arrays,
    with the lemmas the DQD development needs.  Equalities are [Qeq], lifted pointwise ([veq]). *)
From Coq Require Import List QArith Qabs Qminmax Lqa Lia.
Import ListNotations.
Open Scope Q_scope.

Definition vec := list Q.

Fixpoint vadd (a b : vec) : vec :=
  match a, b with x :: a', y :: b' => (x + y) :: vadd a' b' | _, _ => [] end.

Fixpoint vsub (a b : vec) : vec :=
  match a, b with x :: a', y :: b' => (x - y) :: vsub a' b' | _, _ => [] end.

Definition vscale (c : Q) (a : vec) : vec := map (Qmult c) a.
Definition vdiv (a : vec) (d : Q) : vec := map (fun x => x / d) a.
Definition vzero (n : nat) : vec := repeat 0 n.

(** [sum_j cs[j] * gs[j]] in dimension [n]  ( np.sum(gs * cs[:, None], axis=0) ) *)
Fixpoint lincomb (n : nat) (cs : list Q) (gs : list vec) : vec :=
  match cs, gs with
  | c :: cs', g :: gs' => vadd (vscale c g) (lincomb n cs' gs')
  | _, _ => vzero n
  end.

Fixpoint qsum (l : list Q) : Q := match l with [] => 0 | x :: t => x + qsum t end.

Definition veq (a b : vec) : Prop := Forall2 Qeq a b.

Definition coord (v : vec) (k : nat) : Q := nth k v 0.

(** * Lemmas *)
Lemma veq_refl : forall a, veq a a.
Proof. induction a; constructor; auto. reflexivity. Qed.

Lemma veq_sym : forall a b, veq a b -> veq b a.
Proof. induction 1; constructor; auto. symmetry; auto. Qed.

Lemma veq_trans : forall a b c, veq a b -> veq b c -> veq a c.
Proof.
  intros a b c H. revert c. induction H as [|x y a b Hxy Hab IH]; intros c Hc.
  - inversion Hc; subst. constructor.
  - inversion Hc as [|y' z b' c' Hyz Hbc]; subst. constructor.
    + rewrite Hxy. exact Hyz.
    + apply IH. exact Hbc.
Qed.

Lemma veq_length : forall a b, veq a b -> length a = length b.
Proof. induction 1; simpl; auto. Qed.

Lemma veq_coord : forall a b, veq a b -> forall k, coord a k == coord b k.
Proof.
  unfold coord. induction 1; intros k; destruct k; simpl; auto; reflexivity.
Qed.

Lemma vadd_length : forall a b, length a = length b -> length (vadd a b) = length a.
Proof. induction a; intros [|y b] H; simpl in *; try lia. rewrite IHa; lia. Qed.

Lemma vsub_length : forall a b, length a = length b -> length (vsub a b) = length a.
Proof. induction a; intros [|y b] H; simpl in *; try lia. rewrite IHa; lia. Qed.

Lemma vscale_length : forall c a, length (vscale c a) = length a.
Proof. intros. apply map_length. Qed.

Lemma vdiv_length : forall a d, length (vdiv a d) = length a.
Proof. intros. apply map_length. Qed.

Lemma vzero_length : forall n, length (vzero n) = n.
Proof. intros. apply repeat_length. Qed.

Lemma lincomb_length : forall n cs gs,
  Forall (fun g => length g = n) gs -> length (lincomb n cs gs) = n.
Proof.
  induction cs as [|c cs IH]; intros gs Hg; simpl; [apply vzero_length|].
  destruct gs as [|g gs]; [apply vzero_length|].
  inversion Hg; subst. rewrite vadd_length; rewrite vscale_length; auto.
  rewrite IH; auto.
Qed.

Lemma coord_vzero : forall n k, coord (vzero n) k == 0.
Proof.
  unfold coord, vzero. induction n; intros [|k]; simpl; try reflexivity. apply IHn.
Qed.

Lemma coord_vadd : forall a b k, length a = length b ->
  coord (vadd a b) k == coord a k + coord b k.
Proof.
  unfold coord. induction a; intros [|y b] k H; simpl in *; try lia.
  - destruct k; simpl; lra.
  - destruct k; simpl; [lra|]. apply IHa. lia.
Qed.

Lemma coord_vsub : forall a b k, length a = length b ->
  coord (vsub a b) k == coord a k - coord b k.
Proof.
  unfold coord. induction a; intros [|y b] k H; simpl in *; try lia.
  - destruct k; simpl; lra.
  - destruct k; simpl; [lra|]. apply IHa. lia.
Qed.

Lemma coord_vscale : forall c a k, coord (vscale c a) k == c * coord a k.
Proof.
  unfold coord, vscale. induction a; intros k; simpl.
  - destruct k; simpl; lra.
  - destruct k; simpl; [lra|]. apply IHa.
Qed.

Lemma coord_overflow : forall a k, (length a <= k)%nat -> coord a k == 0.
Proof. intros. unfold coord. rewrite nth_overflow; auto. reflexivity. Qed.

(** [(a + b) - a = b] *)
Lemma vsub_vadd_cancel : forall a b, length a = length b -> veq (vsub (vadd a b) a) b.
Proof.
  induction a; intros [|y b] H; simpl in *; try lia; constructor.
  - lra.
  - apply IHa. lia.
Qed.

Lemma vadd_veq : forall a a' b b', veq a a' -> veq b b' -> veq (vadd a b) (vadd a' b').
Proof.
  intros a a' b b' H. revert b b'. induction H as [|x x' a a' Hx Ha IH]; intros b b' Hb; simpl.
  - constructor.
  - destruct Hb as [|y y' b b' Hy Hb]; constructor.
    + rewrite Hx, Hy. reflexivity.
    + apply IH. exact Hb.
Qed.

Lemma vscale_veq : forall c c' a a', c == c' -> veq a a' -> veq (vscale c a) (vscale c' a').
Proof.
  intros c c' a a' Hc H. induction H; simpl; constructor; auto. rewrite Hc, H. reflexivity.
Qed.

(** scaling a gradient by [1/d] and weighting by [c] = weighting the raw gradient by [c/d] *)
Lemma vscale_vdiv : forall c d g, veq (vscale c (vdiv g d)) (vscale (c / d) g).
Proof.
  intros c d g. induction g; simpl; constructor; auto.
  unfold Qdiv. ring.
Qed.

Fixpoint map2 {A B C} (f : A -> B -> C) (l1 : list A) (l2 : list B) : list C :=
  match l1, l2 with x :: t1, y :: t2 => f x y :: map2 f t1 t2 | _, _ => [] end.

Lemma map2_length : forall A B C (f : A -> B -> C) l1 l2,
  length l1 = length l2 -> length (map2 f l1 l2) = length l1.
Proof. induction l1; intros [|y l2] H; simpl in *; try lia. rewrite IHl1; lia. Qed.

Lemma lincomb_normalised : forall n cs ds gs,
  length ds = length gs ->
  veq (lincomb n cs (map2 vdiv gs ds)) (lincomb n (map2 Qdiv cs ds) gs).
Proof.
  induction cs as [|c cs IH]; intros ds gs Hl; simpl; [apply veq_refl|].
  destruct gs as [|g gs]; destruct ds as [|d ds]; simpl in *; try lia; try apply veq_refl.
  apply vadd_veq; [apply vscale_vdiv | apply IH; lia].
Qed.

(** a convex combination stays within coordinate-wise bounds of its points *)
Lemma lincomb_bounds : forall n k lo hi ws ps,
  length ws = length ps -> Forall (fun p => length p = n) ps ->
  Forall (fun w => 0 <= w) ws ->
  Forall (fun p => lo <= coord p k <= hi) ps ->
  (k < n)%nat ->
  lo * qsum ws <= coord (lincomb n ws ps) k <= hi * qsum ws.
Proof.
  induction ws as [|w ws IH]; intros ps Hl Hn Hw Hp Hk.
  - simpl. rewrite coord_vzero. lra.
  - destruct ps as [|p ps]; simpl in Hl; try lia.
    inversion Hn; inversion Hw; inversion Hp; subst. simpl.
    rewrite coord_vadd by (rewrite vscale_length, lincomb_length; auto).
    rewrite coord_vscale.
    specialize (IH ps ltac:(lia) H2 H6 H10 Hk).
    destruct H9 as [Hlo Hhi]. split; nra.
Qed.
