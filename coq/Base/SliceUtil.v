(** Python slicing [arr[pos:end]] and the cumulative [pos:end] partition of a batch by a list of
    lengths, with the lemmas the scheduler proofs need. *)
From Coq Require Import List Arith Bool Lia.
From PV Require Import Base.ListUtil.
Import ListNotations.
Set Implicit Arguments.

(** [l[pos:end_]] (numpy / list slicing with 0 <= pos; clamps at the end of [l]) *)
Definition slice {A} (l : list A) (pos end_ : nat) : list A := firstn (end_ - pos) (skipn pos l).

(** the successive slices [l[pos:pos+n1]], [l[pos+n1:pos+n1+n2]], ... *)
Fixpoint slices {A} (lens : list nat) (pos : nat) (l : list A) : list (list A) :=
  match lens with
  | [] => []
  | n :: t => slice l pos (pos + n) :: slices t (pos + n) l
  end.

(** indices of the [true] entries, ascending ([np.where(mask)[0]]) *)
Fixpoint where_from (i : nat) (l : list bool) : list nat :=
  match l with
  | [] => []
  | b :: t => if b then i :: where_from (S i) t else where_from (S i) t
  end.
Definition where_true (l : list bool) : list nat := where_from 0 l.

Fixpoint ntrue (l : list bool) : nat :=
  match l with [] => 0 | b :: t => (if b then 1 else 0) + ntrue t end.

(** * Lemmas *)

Lemma skipn_skipn A (l : list A) a b : skipn a (skipn b l) = skipn (b + a) l.
Proof.
  revert l; induction b as [|b IH]; intros l; simpl; auto.
  destruct l as [|x t]; [now rewrite skipn_nil|]. apply IH.
Qed.

Lemma slice_length A (l : list A) pos n : pos + n <= length l -> length (slice l pos (pos + n)) = n.
Proof.
  intros H. unfold slice. rewrite firstn_length, skipn_length. lia.
Qed.

Lemma slice_0 A (l : list A) n : slice l 0 n = firstn n l.
Proof. unfold slice. now rewrite Nat.sub_0_r. Qed.

Lemma slice_firstn_skipn A (l : list A) pos n : slice l pos (pos + n) = firstn n (skipn pos l).
Proof. unfold slice. f_equal. lia. Qed.

Lemma slice_map A B (f : A -> B) (l : list A) p e : slice (map f l) p e = map f (slice l p e).
Proof. unfold slice. now rewrite skipn_map, firstn_map. Qed.

Lemma slices_length A lens pos (l : list A) : length (slices lens pos l) = length lens.
Proof. revert pos; induction lens as [|n t IH]; intros pos; simpl; auto. Qed.

Lemma slices_map A B (f : A -> B) lens pos (l : list A) :
  slices lens pos (map f l) = map (map f) (slices lens pos l).
Proof.
  revert pos; induction lens as [|n t IH]; intros pos; simpl; auto.
  now rewrite slice_map, IH.
Qed.

(** the slices tile [l] from [pos] on *)
Lemma slices_concat A lens pos (l : list A) :
  pos + sum_nat lens = length l -> concat (slices lens pos l) = skipn pos l.
Proof.
  revert pos; induction lens as [|n t IH]; intros pos H; simpl in *.
  - rewrite skipn_all2; auto; lia.
  - rewrite IH by lia. rewrite slice_firstn_skipn.
    replace (pos + n) with (pos + n) by lia.
    rewrite <- (skipn_skipn l n pos). apply firstn_skipn.
Qed.

Lemma slices_lengths A lens pos (l : list A) :
  pos + sum_nat lens <= length l -> Forall2 (fun s n => length s = n) (slices lens pos l) lens.
Proof.
  revert pos; induction lens as [|n t IH]; intros pos H; simpl in *; constructor.
  - apply slice_length; lia.
  - apply IH; lia.
Qed.

Lemma slices_nth A lens pos (l : list A) i :
  i < length lens ->
  nth i (slices lens pos l) [] = firstn (nth i lens 0) (skipn (pos + sum_nat (firstn i lens)) l).
Proof.
  revert pos i; induction lens as [|n t IH]; intros pos i H; simpl in *; [lia|].
  destruct i as [|i]; simpl.
  - rewrite Nat.add_0_r. apply slice_firstn_skipn.
  - rewrite IH by lia. do 2 f_equal. lia.
Qed.

(** round trip: cutting a concatenation by the lengths of its parts gives the parts back *)
Lemma slices_concat_inv A (ls : list (list A)) (pre post : list A) :
  slices (map (@length A) ls) (length pre) (pre ++ concat ls ++ post) = ls.
Proof.
  revert pre; induction ls as [|x t IH]; intros pre; simpl; auto.
  f_equal.
  - rewrite slice_firstn_skipn. rewrite skipn_app, skipn_all, Nat.sub_diag. simpl.
    rewrite <- app_assoc. rewrite firstn_app, firstn_all, Nat.sub_diag. simpl. apply app_nil_r.
  - specialize (IH (pre ++ x)). rewrite app_length in IH.
    rewrite <- !app_assoc in IH. rewrite <- !app_assoc. exact IH.
Qed.

Lemma slices_concat_inv0 A (ls : list (list A)) : slices (map (@length A) ls) 0 (concat ls) = ls.
Proof.
  generalize (slices_concat_inv ls [] []). simpl. now rewrite app_nil_r.
Qed.

Lemma sum_nat_app a b : sum_nat (a ++ b) = sum_nat a + sum_nat b.
Proof. induction a; simpl; lia. Qed.

Lemma length_concat A (ls : list (list A)) : length (concat ls) = sum_nat (map (@length A) ls).
Proof. induction ls as [|x t IH]; simpl; auto. rewrite app_length; lia. Qed.

Lemma skipn_seq n a len : skipn n (seq a len) = seq (a + n) (len - n).
Proof.
  revert a len; induction n as [|n IH]; intros a len; simpl.
  - now rewrite Nat.add_0_r, Nat.sub_0_r.
  - destruct len as [|len]; simpl; auto. rewrite IH. f_equal. lia.
Qed.

Lemma firstn_seq n a len : firstn n (seq a len) = seq a (Nat.min n len).
Proof.
  revert a len; induction n as [|n IH]; intros a len; simpl; auto.
  destruct len as [|len]; simpl; auto. now rewrite IH.
Qed.

(** a slice of a table [map f (seq 0 n)] is the table over the sub-range *)
Lemma slice_map_seq A (f : nat -> A) n pos k :
  pos + k <= n -> slice (map f (seq 0 n)) pos (pos + k) = map f (seq pos k).
Proof.
  intros H. rewrite slice_map, slice_firstn_skipn, skipn_seq, firstn_seq. simpl.
  do 2 f_equal. lia.
Qed.

(** where_true *)
Lemma where_from_In i l j : In j (where_from i l) <-> i <= j /\ nth (j - i) l false = true.
Proof.
  revert i; induction l as [|b t IH]; intros i; simpl.
  - split; [tauto|]. intros [_ H]. destruct (j - i); discriminate.
  - destruct b; simpl; rewrite ?IH.
    + split.
      * intros [<-|[H1 H2]]; [rewrite Nat.sub_diag; auto|].
        split; [lia|]. replace (j - i) with (S (j - S i)) by lia. auto.
      * intros [H1 H2]. destruct (Nat.eq_dec i j) as [->|Hne]; auto. right. split; [lia|].
        replace (j - i) with (S (j - S i)) in H2 by lia. auto.
    + split.
      * intros [H1 H2]. split; [lia|]. replace (j - i) with (S (j - S i)) by lia. auto.
      * intros [H1 H2]. destruct (Nat.eq_dec i j) as [->|Hne].
        { rewrite Nat.sub_diag in H2. discriminate. }
        split; [lia|]. replace (j - i) with (S (j - S i)) in H2 by lia. auto.
Qed.

Lemma where_true_In l j : In j (where_true l) <-> nth j l false = true.
Proof.
  unfold where_true. rewrite where_from_In, Nat.sub_0_r. intuition lia.
Qed.

Lemma where_from_sorted i l : strict_sorted (where_from i l).
Proof.
  revert i; induction l as [|b t IH]; intros i; simpl; [constructor|].
  destruct b; [|apply IH]. constructor; [apply IH|].
  apply Forall_forall. intros j Hj. apply where_from_In in Hj. lia.
Qed.

Lemma where_true_NoDup l : NoDup (where_true l).
Proof. apply strict_sorted_NoDup, where_from_sorted. Qed.

Lemma where_true_lt l j : In j (where_true l) -> j < length l.
Proof.
  rewrite where_true_In. intros H. destruct (Nat.lt_ge_cases j (length l)); auto.
  rewrite nth_overflow in H; auto; discriminate.
Qed.

Lemma where_from_length i l : length (where_from i l) = ntrue l.
Proof.
  revert i; induction l as [|b t IH]; intros i; simpl; auto.
  destruct b; simpl; rewrite IH; auto.
Qed.

Lemma where_true_length l : length (where_true l) = ntrue l.
Proof. apply where_from_length. Qed.

Lemma where_from_all_true i n : where_from i (repeat true n) = seq i n.
Proof. revert i; induction n as [|n IH]; intros i; simpl; auto. now rewrite IH. Qed.

Lemma ntrue_le l : ntrue l <= length l.
Proof. induction l as [|b t IH]; simpl; auto. destruct b; lia. Qed.

Lemma ntrue_repeat_false n : ntrue (repeat false n) = 0.
Proof. induction n; simpl; auto. Qed.
