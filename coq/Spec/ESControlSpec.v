(** What a user of an evolution-strategy emitter relies on (C10), stated without reference to the code. *)
From Coq Require Import List ZArith Bool Arith.
From PV Require Import Model.ESControl.
Import ListNotations.

(** number of solutions of the batch that were inserted into the archive (status 1 or 2, i.e. not 0) *)
Definition inserted (statuses : list Z) : nat :=
  length (filter (fun z => negb (z =? 0)%Z) statuses).

(** configured number of parents *)
Definition parents_spec (c : cfg) (statuses : list Z) : nat :=
  match c_sel c with Filter => inserted statuses | Mu => c_batch c / 2 end.

(** the configured restart rule, for the [t]-th tell (counted from 1) with feedback [statuses] *)
Definition rule_fires (r : restart_rule) (t : nat) (statuses : list Z) : Prop :=
  match r with
  | Basic => False
  | NoImprovement => Forall (fun z => z = 0%Z) statuses
  | EveryN n => (Z.of_nat t mod n = 0)%Z
  end.
