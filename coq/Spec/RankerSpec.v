(** What a user of a ranker relies on (C17), independent of how the ranking is computed.
    Definitions only.  [rank_ok] is the decidable form of the statement; it is extracted and evaluated by
    the harness on the IMPLEMENTATION's outputs (the oracle), see Proofs/RankerProofs.v for
    [rank_ok_sound] (what [rank_ok = true] guarantees) and [rank_ok_complete] (the model passes it). *)
From Coq Require Import List ZArith QArith Bool Arith.
From PV Require Import Model.Store Model.Ranker.
Import ListNotations.
Open Scope Q_scope.

Definition batch_size (v : values) : nat :=
  match v with V1 l => length l | V2 l => length l end.

(** the (status, key) pair the solution at original position [i] is ranked by; one-stage rankers: status 0 *)
Definition key_at (v : values) (i : nat) : Q * Q :=
  match v with V1 l => (0, nth i l 0) | V2 l => nth i l (0, 0) end.

(** [x] may stand in front of [y]:
    - density: lower density first;
    - every other ranker: higher add status first (new 2 > improved 1 > not added 0), then higher key. *)
Definition at_least_as_good (k : kind) (x y : Q * Q) : Prop :=
  match k with
  | Density => snd x <= snd y
  | _ => fst y < fst x \/ (fst x == fst y /\ snd y <= snd x)
  end.

(** the documented ranking values, aligned with the original positions *)
Definition documented_values (r : ranker) (a : archive) (d : data) (i : add_info) : values :=
  let proj := map (fun m => dot m (match r_dir r with Some dir => dir | None => [] end)) (d_measures d) in
  let st := map inject_Z (i_status i) in
  match r_kind r with
  | Imp => V1 (i_value i)
  | TwoImp => V2 (combine st (i_value i))
  | Obj => V1 (d_objective d)
  | TwoObj => V2 (combine st (d_objective d))
  | Nov => V1 (i_novelty i)
  | RD => V1 proj
  | TwoRD => V2 (combine st proj)
  | Density => V1 (match a_density a with Some f => f (d_measures d) | None => [] end)
  end.

Definition best_first (k : kind) (v : values) (idx : list nat) : Prop :=
  forall p q, (p < q < batch_size v)%nat ->
    at_least_as_good k (key_at v (nth p idx O)) (key_at v (nth q idx O)).

(** * decidable form, over observables only *)
Definition at_least_as_good_b (k : kind) (x y : Q * Q) : bool :=
  match k with
  | Density => Qle_bool (snd x) (snd y)
  | _ => negb (Qle_bool (fst x) (fst y)) || (Qeq_bool (fst x) (fst y) && Qle_bool (snd y) (snd x))
  end.

Definition is_perm_b (idx : list nat) (n : nat) : bool :=
  Nat.eqb (length idx) n && forallb (fun i => existsb (Nat.eqb i) idx) (seq 0 n).

Fixpoint adjacent_b {A} (R : A -> A -> bool) (l : list A) : bool :=
  match l with
  | x :: ((y :: _) as t) => R x y && adjacent_b R t
  | _ => true
  end.

Definition sorted_b (k : kind) (v : values) (idx : list nat) : bool :=
  adjacent_b (at_least_as_good_b k) (map (key_at v) idx).

Definition rank_ok (k : kind) (v : values) (idx : list nat) : bool :=
  is_perm_b idx (batch_size v) && sorted_b k v idx.
